// Driver: runs the real lelwel::compile on one grammar file and leaves
// generated.rs in the given output directory.  Exit 0 = accepted (no error
// diagnostic), 3 = rejected, 4 = io error.  Diagnostics go to stderr (the
// tool's own rendering).
fn main() {
    let a: Vec<String> = std::env::args().collect();
    if a.len() < 3 {
        eprintln!("usage: llwgen <grammar.llw> <outdir>");
        std::process::exit(2);
    }
    match lelwel::compile(&a[1], &a[2], false, false, 0, false, true) {
        Ok(true) => std::process::exit(0),
        Ok(false) => std::process::exit(3),
        Err(e) => {
            eprintln!("io error: {e}");
            std::process::exit(4)
        }
    }
}
