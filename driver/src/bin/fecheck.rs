// fecheck: BOUNDED stand-in for the parts of lelwel's grammar front end that the deductive verifier
// cannot ingest (the logos lexer, SemanticPass::run, diag.rs) -- property C12.
//
// It runs the real front end (lexer -> generated parser -> semantic analysis, exactly the calls
// lelwel::compile makes) on a bounded, enumerated family of texts:
//   * every seed grammar given on the command line,
//   * every prefix of a seed (cut at every lexeme boundary and inside every lexeme),
//   * every single-lexeme deletion,
//   * every replacement of a lexeme by / insertion of a symbol of a fixed alphabet of grammar-language
//     lexemes and junk (small seeds: whole alphabet; large seeds: a short alphabet or none),
//   * (thorough) swaps of adjacent lexemes, duplications, and every sequence of up to 4 (quick: 3)
//     symbols of a 14-symbol alphabet,
//   * two built-in seeds with one of every lexeme class of the lexer (escapes, multi-byte characters in
//     strings and comments, block / doc comments, a last line without newline), treated like seed files,
//   * a deterministic byte soup: 40 000 (thorough: 400 000) texts of up to 12 characters out of
//     quotes, backslashes, comment starts and 2/3/4-byte characters.
// For every text: no panic, returns within the watchdog time, every diagnostic label lies inside the
// text on character boundaries with start <= end.
//
// usage: fecheck <quick|thorough> <seed.llw>...      prints FAIL lines and a final "DONE\t<runs>\t<fails>"
use lelwel::frontend::parser::Parser;
use lelwel::frontend::sema::SemanticPass;
use std::sync::atomic::{AtomicU64, Ordering};
use std::sync::Mutex;

static RUNS: AtomicU64 = AtomicU64::new(0);
static FAILS: AtomicU64 = AtomicU64::new(0);
static OUT: Mutex<()> = Mutex::new(());

const ALPHA: &[&str] = &[
    "token", "start", "skip", "right", "part", "A", "a", "'x'", ":", ";", "|", "/", "*", "+", "?", "?1", "#1", "!1", "[", "]",
    "(", ")", "^", "~", "&", "@a", "<1", "1>", ">", "<", "=", "1", "$", "\u{e9}", "'", "//c\n", "\"", "\u{0}", "a:", "A='a'",
];
const SHORT: &[&str] = &["token", "start", "A", "a", ":", ";", "|", "/", "*", "(", ")", "^", "1>", "$"];
// lexemes of the string / comment sub-languages of the lexer (escapes, multi-byte characters, block
// and doc comments); used as replacements / insertions next to ALPHA on the small seeds
const LEXALPHA: &[&str] = &["\\", "'\\''", "'\\\\'", "'\\x'", "'\\\u{e9}'", "'\u{e9}'", "'\\", "/*", "*/", "/*c*/", "///d\n", "\u{20ac}", "\u{1f600}"];
// built-in seeds (always run, with every prefix / deletion / replacement like the seed files): one of
// every lexeme class of src/frontend/lexer.rs, valid and invalid escapes, multi-byte characters in
// strings and comments, a last line without newline
const LEXSEEDS: &[&str] = &[
    "token A='\\'' B='\\\\' C='\\\u{e9}' D='\u{e9}' E='\\x';\n/* c \u{e9} */ /// doc \u{e9}\nstart s; // \u{e9}\ns: A '\\\\' ?1 #1 !1 @n <1 1>x > ^ ~ & [B] (C | D)* / E ?t;\n// end '\\",
    "token A='a';\nstart s;\ns: A '\\\u{20ac}' '\u{1f600}\\\u{1f600}' /* \u{1f600}",
];
// characters of the byte soup (deterministic pseudo-random texts of up to 12 of them)
const SOUP: &[&str] = &["'", "\\", "\u{e9}", "/", "*", "\n", "a", " ", "\u{20ac}", "\u{1f600}", ":", ";", "?", "1", ">", "@"];

fn lexemes(s: &str) -> Vec<(usize, usize)> {
    let b: Vec<(usize, char)> = s.char_indices().collect();
    let mut out = vec![];
    let mut i = 0;
    while i < b.len() {
        let (st, c) = b[i];
        let mut j = i + 1;
        if c.is_alphanumeric() || c == '_' {
            while j < b.len() && (b[j].1.is_alphanumeric() || b[j].1 == '_') { j += 1; }
        } else if c.is_whitespace() {
            while j < b.len() && b[j].1.is_whitespace() { j += 1; }
        } else if c == '\'' {
            while j < b.len() && b[j].1 != '\'' && b[j].1 != '\n' { j += 1; }
            if j < b.len() && b[j].1 == '\'' { j += 1; }
        } else if c == '/' && j < b.len() && b[j].1 == '/' {
            while j < b.len() && b[j].1 != '\n' { j += 1; }
        }
        let en = if j < b.len() { b[j].0 } else { s.len() };
        out.push((st, en));
        i = j;
    }
    out
}

fn esc(s: &str) -> String {
    let mut o = String::new();
    for c in s.chars().take(400) {
        match c { '\n' => o.push_str("\\n"), '\t' => o.push_str("\\t"), '\\' => o.push_str("\\\\"), c if (c as u32) < 32 => o.push_str(&format!("\\x{:02x}", c as u32)), c => o.push(c) }
    }
    o
}

fn fail(text: &str, what: &str) {
    let n = FAILS.fetch_add(1, Ordering::SeqCst);
    let _g = OUT.lock();
    // the exact failing text goes to a file (replayed with `fecheck one <file>`)
    let mut file = String::new();
    if n < 25 {
        if let Ok(dir) = std::env::var("FECHECK_OUT") {
            let p = format!("{}/fail_{}.llw", dir, n);
            if std::fs::write(&p, text).is_ok() { file = p; }
        }
    }
    println!("FAIL\t{}\t{}\t{}", what, file, esc(text));
}

fn run(text: &str) {
    RUNS.fetch_add(1, Ordering::SeqCst);
    let t = text.to_string();
    let r = std::panic::catch_unwind(move || {
        let mut diags = vec![];
        let cst = Parser::new(&t, &mut diags).parse(&mut diags);
        let _sema = SemanticPass::run(&cst, &mut diags);
        let mut bad: Option<String> = None;
        for d in &diags {
            for l in &d.labels {
                let (a, b) = (l.range.start, l.range.end);
                if a > b || b > t.len() || !t.is_char_boundary(a) || !t.is_char_boundary(b) {
                    bad = Some(format!("C12 diagnostic label {}..{} outside the text (len {}) or not on a character boundary: {}", a, b, t.len(), d.message));
                }
            }
        }
        bad
    });
    match r {
        Ok(None) => {}
        Ok(Some(m)) => fail(text, &m),
        Err(e) => {
            let m = e.downcast_ref::<String>().cloned().or_else(|| e.downcast_ref::<&str>().map(|s| s.to_string())).unwrap_or_default();
            fail(text, &format!("C12 panic: {}", m.replace('\n', " ")));
        }
    }
}

const CHUNK: usize = 48;

/// variants of `seed` that edit the lexemes with index in [lo, hi)
fn variants(seed: &str, thorough: bool, lo: usize, hi: usize) {
    if lo == 0 { run(seed); }
    let all = lexemes(seed);
    let hi = hi.min(all.len());
    if lo >= hi { return; }
    let total = all.len();
    let lx = &all[lo..hi];
    let lx_len_for_policy = total;
    // prefixes: at every lexeme boundary and inside every lexeme (every char boundary for small seeds)
    for &(a, b) in lx {
        run(&seed[..a]);
        if lx_len_for_policy <= 600 || thorough {
            for k in a + 1..b { if seed.is_char_boundary(k) { run(&seed[..k]); } }
        }
    }
    // deletions
    for &(a, b) in lx {
        let mut t = String::with_capacity(seed.len());
        t.push_str(&seed[..a]); t.push_str(&seed[b..]);
        run(&t);
    }
    let base: &[&str] = if total <= 150 { ALPHA } else if total <= 700 && thorough { SHORT } else if total <= 300 { SHORT } else { &[] };
    let mut alpha: Vec<&str> = base.to_vec();
    if total <= 150 { alpha.extend_from_slice(LEXALPHA); }
    for &(a, b) in lx {
        if seed[a..b].trim().is_empty() && !thorough { continue; }
        for s in &alpha {
            let mut t = String::with_capacity(seed.len() + 8);
            t.push_str(&seed[..a]); t.push_str(s); t.push_str(&seed[b..]);
            run(&t);
            let mut t = String::with_capacity(seed.len() + 8);
            t.push_str(&seed[..a]); t.push_str(s); t.push(' '); t.push_str(&seed[a..]);
            run(&t);
        }
    }
    if thorough && total <= 700 {
        for w in all[lo..(hi + 1).min(total)].windows(2) {
            let ((a, b), (c, d)) = (w[0], w[1]);
            let t = format!("{}{}{}{}", &seed[..a], &seed[c..d], &seed[a..b], &seed[d..]);
            run(&t);
            let t = format!("{}{}{}", &seed[..b], &seed[a..b], &seed[b..]);
            run(&t);
        }
    }
}

fn short_sequences(maxlen: usize) {
    let n = SHORT.len();
    for len in 0..=maxlen {
        let mut idx = vec![0usize; len];
        loop {
            let t: Vec<&str> = idx.iter().map(|&i| SHORT[i]).collect();
            run(&t.join(" "));
            let mut k = len;
            let mut done = len == 0;
            while k > 0 {
                k -= 1;
                idx[k] += 1;
                if idx[k] < n { break; }
                idx[k] = 0;
                if k == 0 { done = true; }
            }
            if done { break; }
        }
    }
}

/// deterministic byte soup: `n` texts of 1..=12 SOUP characters (fixed-seed LCG, so every run and
/// every replay sees the same texts)
fn soup(n: usize) {
    let mut x: u64 = 0x9e3779b97f4a7c15;
    let mut next = || { x = x.wrapping_mul(6364136223846793005).wrapping_add(1442695040888963407); (x >> 33) as usize };
    for _ in 0..n {
        let len = 1 + next() % 12;
        let mut t = String::new();
        for _ in 0..len { t.push_str(SOUP[next() % SOUP.len()]); }
        run(&t);
    }
}

fn main() {
    let args: Vec<String> = std::env::args().collect();
    if args.len() < 2 { eprintln!("usage: fecheck <quick|thorough> <seed.llw>..."); std::process::exit(2); }
    let thorough = args[1] == "thorough";
    std::panic::set_hook(Box::new(|_| {}));
    if args[1] == "one" {
        // replay: exactly the texts in the given files
        for p in &args[2..] { if let Ok(t) = std::fs::read_to_string(p) { run(&t); } }
        println!("DONE\t{}\t{}", RUNS.load(Ordering::SeqCst), FAILS.load(Ordering::SeqCst));
        return;
    }
    // watchdog: no progress for 10 s = a hang
    std::thread::spawn(|| {
        let mut last = 0u64; let mut same = 0;
        loop {
            std::thread::sleep(std::time::Duration::from_millis(1000));
            let p = RUNS.load(Ordering::SeqCst);
            if p == last { same += 1; } else { same = 0; last = p; }
            if same >= 10 {
                println!("FAIL\tC12 the front end did not return within 10 s (non-termination)\t<see stderr for the worker's text>");
                println!("DONE\t{}\t{}", p, FAILS.load(Ordering::SeqCst) + 1);
                std::process::exit(0);
            }
        }
    });
    let mut seeds: Vec<String> = args[2..].iter().filter_map(|p| std::fs::read_to_string(p).ok()).collect();
    seeds.extend(LEXSEEDS.iter().map(|s| s.to_string()));
    // work items: (seed, chunk of lexemes); the last item is the exhaustive short-sequence family
    let mut items: Vec<(usize, usize)> = vec![];
    for (i, s) in seeds.iter().enumerate() {
        let n = lexemes(s).len().max(1);
        let mut lo = 0;
        while lo < n { items.push((i, lo)); lo += CHUNK; }
    }
    let next = std::sync::Arc::new(AtomicU64::new(0));
    let seeds = std::sync::Arc::new(seeds);
    let items = std::sync::Arc::new(items);
    let mut hs = vec![];
    let nthreads = std::thread::available_parallelism().map(|n| n.get()).unwrap_or(4).min(16);
    for _ in 0..nthreads {
        let (next, seeds, items) = (next.clone(), seeds.clone(), items.clone());
        hs.push(std::thread::Builder::new().stack_size(256 << 20).spawn(move || loop {
            let i = next.fetch_add(1, Ordering::SeqCst) as usize;
            if i == items.len() { short_sequences(if thorough { 4 } else { 3 }); continue; }
            if i == items.len() + 1 { soup(if thorough { 400_000 } else { 40_000 }); continue; }
            if i > items.len() + 1 { break; }
            let (si, lo) = items[i];
            variants(&seeds[si], thorough, lo, lo + CHUNK);
        }).unwrap());
    }
    for h in hs { let _ = h.join(); }
    println!("DONE\t{}\t{}", RUNS.load(Ordering::SeqCst), FAILS.load(Ordering::SeqCst));
}
