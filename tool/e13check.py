#!/usr/bin/env python3
"""Bounded cross-check of extraction rule E13 (ordered choice: labelled block + closures ->
labelled loops): the emitted parser and the same text with ONLY the E13 rewrite applied are both
compiled natively and run on every token sequence up to a length bound (x predicate outcome
patterns x entry points); printed trees and diagnostics must be identical.

usage: e13check.py <generated.rs> <workdir> [maxlen]   -> prints a JSON record; exit 0 same, 1 different, 2 n/a
"""
import json
import os
import subprocess
import sys

HERE = os.path.dirname(os.path.abspath(__file__))
sys.path.insert(0, HERE)
import extract    # noqa: E402
import falsify    # noqa: E402


def run(gen_text, workdir, maxlen=None):
    rep = {}
    rew = extract.e13_ordered_choice(gen_text, rep)
    out = {"rewritten_fns": rep.get("E13_rewritten_fns", []), "left_as_E8": rep.get("E13_left_as_E8", {})}
    if not out["rewritten_fns"]:
        out["status"] = "not_applicable"
        return out
    exe_a, info = falsify.build_harness(gen_text, os.path.join(workdir, "e13_orig"))
    exe_b, info_b = falsify.build_harness(rew, os.path.join(workdir, "e13_rew"))
    if exe_a is None or exe_b is None:
        out["status"] = "build_failed"
        out["detail"] = (info if exe_a is None else info_b).get("error", "")[-1500:]
        return out
    n = len(info["chars"])
    ml = maxlen or 6
    while ml > 2 and n ** ml > 400_000:
        ml -= 1
    res = []
    for exe in (exe_a, exe_b):
        try:
            r = subprocess.run([exe, "digest", str(ml)], stdout=subprocess.PIPE, stderr=subprocess.PIPE, text=True, timeout=600)
        except subprocess.TimeoutExpired:
            out["status"] = "timeout"
            return out
        line = [l for l in r.stdout.split("\n") if l.startswith("DIGEST")]
        res.append(line[-1] if line else "none:" + r.stdout[-200:])
    out.update({"max_len": ml, "alphabet": n, "original": res[0], "rewritten": res[1], "runs": res[0].split("\t")[1] if "\t" in res[0] else None})
    if not (res[0].startswith("DIGEST") and res[1].startswith("DIGEST")):
        # a build did not get through the enumeration (the parser hangs on some input: the watchdog ends the
        # process); the bounded stand-in reports that input, nothing can be compared here
        out["status"] = "not_comparable"
    else:
        out["status"] = "same" if res[0] == res[1] else "different"
    return out


if __name__ == "__main__":
    gen = open(sys.argv[1]).read()
    o = run(gen, sys.argv[2], int(sys.argv[3]) if len(sys.argv) > 3 else None)
    print(json.dumps(o, indent=1))
    sys.exit({"same": 0, "different": 1}.get(o["status"], 2))
