#!/bin/bash
# Run the registered checks against every seeded change under /verif/seeded/*/patch.diff:
# apply to /repo, run `./check all`, undo straight afterwards.  One summary line per seed.
# usage: try_seeds.sh [tier] [id ...]
tier="${1:-quick}"; shift
ids="$@"
[ -z "$ids" ] && ids=$(ls /verif/seeded)
cd /verif
for id in $ids; do
  d=/verif/seeded/$id
  [ -f "$d/patch.diff" ] || continue
  if ! git -C /repo diff --quiet; then echo "$id: /repo is dirty, refusing"; exit 2; fi
  if ! git -C /repo apply "$d/patch.diff" 2> "$d/apply.err"; then echo "$id: patch does not apply"; continue; fi
  t0=$(date +%s)
  VERIF_EVIDENCE=/verif/.cache/evidence_scratch ./check all --tier "$tier" > "$d/check_$tier.out" 2> "$d/check_$tier.err"
  rc=$?
  git -C /repo checkout -- .
  vio=$(grep -oE "^VIOLATION property=C[0-9]+" "$d/check_$tier.out" | sort -u | sed 's/VIOLATION property=//' | tr '\n' ',' )
  und=$(grep -c "^UNDECIDED" "$d/check_$tier.out")
  echo "$id: rc=$rc violations=[${vio%,}] undecided=$und secs=$(( $(date +%s) - t0 ))"
done
