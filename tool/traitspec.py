"""Contracts on the ParserCallbacks trait (user side of the emitted parser).

Adds three trait-level spec fns and requires/ensures on the callback
declarations.  Default bodies `{}` of create_node_*/delete_node_* become
external_body: they are the user's to override, and are constrained only by
the frame `cb_frame` (an assumption on user code, listed in the evidence).
"""
import re
from rsx import Index, Edits
from extract import Lost

TRAIT_SPECS = """
    // --- contracts (ghost) ---
    spec fn cb_frame(pre: &Self, post: &Self) -> bool;
    spec fn cb_node_ready(pre: &Self, i: int, rule: Rule) -> bool;
    spec fn cb_span_ok(pre: &Self, span: Span) -> bool;
    spec fn cb_committed(pre: &Self) -> bool;
    spec fn cb_tokens_ok(source: &'a str, toks: Seq<Token>, spans: Seq<Span>) -> bool;
"""


def rule_variant_map(ix):
    """create_node_<name> -> Rule::<Variant>, read from Parser::create_node."""
    try:
        f = ix.fn("Parser::create_node")
    except KeyError:
        raise Lost("Parser::create_node not found")
    body = ix.text(f.i_body, f.i_end)
    m = dict((b, a) for a, b in re.findall(r"Rule::(\w+)\s*=>\s*self\s*\.\s*create_node_(\w+)\s*\(", body))
    if not m:
        raise Lost("Parser::create_node has no dispatch arms")
    return m


def apply(ix, ed, report):
    vmap = rule_variant_map(ix)
    st = ix.st
    tr = [(o, t, a, b) for (o, t, a, b) in ix.impls if o == "trait ParserCallbacks"]
    if len(tr) != 1:
        raise Lost("trait ParserCallbacks: %d definitions" % len(tr))
    _, _, i_open, i_close = tr[0]
    ed.insert(st[i_open].e, TRAIT_SPECS)
    n = {"create_node": 0, "delete_node": 0, "action": 0, "other": 0}
    for f in ix.fns:
        if f.owner != "trait ParserCallbacks":
            continue
        pos = st[f.i_body].s if f.i_body is not None else st[f.i_end].s
        nm = f.name
        if nm.startswith("create_node_"):
            rn = nm[len("create_node_"):]
            if rn not in vmap:
                raise Lost("callback %s has no arm in Parser::create_node" % nm)
            ed.insert(st[f.i_attr].s, "#[verifier::external_body] ")
            ed.insert(pos, "\n        requires Self::cb_node_ready(old(self), _node_ref.0 as int, Rule::%s),   // [C02]\n        ensures Self::cb_frame(old(self), final(self)),\n    " % vmap[rn])
            n["create_node"] += 1
        elif nm.startswith("delete_node_"):
            ed.insert(st[f.i_attr].s, "#[verifier::external_body] ")
            ed.insert(pos, "\n        ensures Self::cb_frame(old(self), final(self)),\n    ")
            n["delete_node"] += 1
        elif nm.startswith("action_"):
            ed.insert(pos, "\n        requires Self::cb_committed(old(self)),   // [C08] no semantic action runs in an attempt that can still be undone\n        ensures Self::cb_frame(old(self), final(self)),\n    ")
            n["action"] += 1
        elif nm == "create_diagnostic":
            ed.insert(pos, "\n        requires Self::cb_span_ok(self, span),   // [C06,C12] every diagnostic span lies inside the source\n    ")
        elif nm == "create_tokens":
            # name the result
            ed.insert(st[f.i_arrow + 1].s, "(r: ")
            ed.insert(st[f.i_end - 1].e, ")")
            ed.insert(pos, "\n        ensures Self::cb_tokens_ok(source, r.0@, r.1@),\n    ")
        elif nm == "predicate_skip":
            ed.insert(st[f.i_attr].s, "#[verifier::external_body] ")
        else:
            n["other"] += 1
    report["trait_callbacks"] = n
