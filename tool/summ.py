import json,sys
d=json.load(open(sys.argv[1]))
print(d['verification-results'])
t=d['times-ms']
fb=t['smt']['smt-run-module-times'][0]['function-breakdown']
fb.sort(key=lambda x:-x['time-micros'])
for f in fb[:int(sys.argv[2]) if len(sys.argv)>2 else 12]: print(f['function'], f['time-micros']//1000, 'ms', f.get('rlimit'), f.get('success'))
print("FAILED:", [f['function'] for f in fb if not f.get('success')])
