"""Build the Verus input file for one emitted parser."""
import os
import re
from rsx import Index
from extract import extract, Lost
from merge import merge, merge_into

HERE = os.path.dirname(os.path.abspath(__file__))
CONTRACTS = os.path.join(os.path.dirname(HERE), "contracts")


def read(p):
    with open(p) as f:
        return f.read()


def token_names(gen_src):
    names = []
    for m in re.finditer(r"\bToken::([A-Za-z_][A-Za-z0-9_]*)|\b(?:try_)?expect(?:_brk)?!\s*\(\s*([A-Za-z_][A-Za-z0-9_]*)\s*,", gen_src):
        nm = m.group(1) or m.group(2)
        if nm not in names and nm != "$token":
            names.append(nm)
    for must in ("EOF", "Error"):
        if must not in names:
            names.append(must)
    return names


def static_skip_names(gen_src):
    ix = Index(gen_src)
    try:
        f = ix.fn("Parser::is_skipped")
    except KeyError:
        raise Lost("Parser::is_skipped not found")
    body = ix.text(f.i_body, f.i_end)
    m = re.fullmatch(r"\{\s*matches!\s*\(\s*token\s*,\s*((?:Token::\w+\s*\|?\s*)+)\)\s*\}", body)
    if not m:
        raise Lost("Parser::is_skipped is not a single matches! over unit variants")
    return re.findall(r"Token::(\w+)", m.group(1))


def eoi_names(gen_src):
    names = ["EOF"]
    for m in re.finditer(r"end_of_input\s*=\s*Token::(\w+)\s*;", gen_src):
        if m.group(1) not in names:
            names.append(m.group(1))
    # the constructor's initial value
    for m in re.finditer(r"end_of_input\s*:\s*Token::(\w+)\s*,", gen_src):
        if m.group(1) not in names:
            names.append(m.group(1))
    return names


def real_predicates(path):
    """The hand-written predicates of a user-side file (the front end's own src/frontend/parser.rs):
    {name: text of `fn predicate_x(&self) -> bool { .. }`}, cut out by brace matching."""
    try:
        text = read(path)
    except OSError:
        return {}
    out = {}
    for m in re.finditer(r"fn (predicate_\w+)\s*\(\s*&self\s*\)\s*->\s*bool\s*\{", text):
        depth, i = 0, m.end() - 1
        while i < len(text):
            if text[i] == "{":
                depth += 1
            elif text[i] == "}":
                depth -= 1
                if depth == 0:
                    break
            i += 1
        if depth == 0 and i < len(text):
            out[m.group(1)] = text[m.start():i + 1]
    return out


def callbacks_impl(gen_src, real=None):
    """Abstract user side: every callback is external_body and obeys only the
    trait-level frame.  `real`: predicates whose real text is verified instead."""
    real = real or {}
    preds = sorted(set(re.findall(r"fn (predicate_\w+)\(&self\) -> bool;", gen_src)))
    acts = sorted(set(re.findall(r"fn (action_\w+)\(&mut self", gen_src)))
    asserts = sorted(set(re.findall(r"fn (assertion_\w+)\(&self\)", gen_src)))
    out = ["impl<'a> ParserCallbacks<'a> for Parser<'a> {",
           "    type Diagnostic = Diagnostic;",
           "    type Context = ();",
           read(os.path.join(CONTRACTS, "cb_frame.vlib")),
           "    #[verifier::external_body]",
           "    fn create_tokens(_c: &mut Self::Context, source: &'a str, diags: &mut Vec<Self::Diagnostic>) -> (Vec<Token>, Vec<Span>) { unimplemented!() }",
           "    #[verifier::external_body]",
           "    fn create_diagnostic(&self, span: Span, message: String) -> Self::Diagnostic { unimplemented!() }"]
    for p in preds:
        if p == "predicate_skip":
            continue
        if p in real:
            out.append("    // real text of the hand-written predicate (src/frontend/parser.rs), verified, not assumed")
            out.append("    " + real[p])
            continue
        out.append("    #[verifier::external_body] fn %s(&self) -> bool { unimplemented!() }" % p)
    for a in acts:
        out.append("    #[verifier::external_body] fn %s(&mut self, _d: &mut Vec<Self::Diagnostic>) { unimplemented!() }" % a)
    for a in asserts:
        out.append("    #[verifier::external_body] fn %s(&self) -> Option<Self::Diagnostic> { unimplemented!() }" % a)
    out.append("}")
    return "\n".join(out) + "\n"


def grammar_specs(gen_src, grammar_text=None, report=None):
    skips = static_skip_names(gen_src)
    if grammar_text:
        # [C16] what counts as a skipped token is what the GRAMMAR says -- the tokens of its `skip`
        # declarations plus the lexer's Error token --, not what the emitted Parser::is_skipped lists:
        # the postcondition of is_skipped (`r == is_static_skip(token)`) is then a real obligation
        from kani_leaves import declared_skips, declared_tokens
        declared = ["Error"] + [n for n in declared_skips(grammar_text) if n != "Error"]
        if not set(declared[1:]) <= declared_tokens(grammar_text):
            # my reader of the grammar text is unsure (a skip name that is no declared token): do not
            # turn that into an alarm -- fall back to the emitted list and say so in the evidence
            if report is not None:
                report["skip_reader_unsure"] = declared
        else:
            if report is not None and set(declared) != set(skips):
                report["skip_set_differs_from_grammar"] = {"grammar": declared, "emitted": skips}
            skips = declared
    eois = eoi_names(gen_src)
    s = "pub open spec fn is_static_skip(t: Token) -> bool { %s }\n" % " || ".join("t == Token::%s" % n for n in skips)
    s += "pub open spec fn eoi_ok(t: Token) -> bool { %s }\n" % " || ".join("t == Token::%s" % n for n in eois)
    # MarkTruncation::wfm links the saved fields THAT EXIST in the emitted struct to the ghost
    # snapshots the contracts talk about.  If a refactoring drops a saved field, the link is simply
    # absent and truncate() can no longer prove that it restores the snapshot (a failed obligation,
    # not a lost anchor).
    m = re.search(r"struct\s+MarkTruncation\s*\{([^}]*)\}", gen_src)
    if not m:
        raise Lost("struct MarkTruncation not found")
    fields = re.findall(r"(\w+)\s*:", m.group(1))
    links = []
    if "non_skip_len" in fields:
        links.append("self.non_skip_len == self.g_nsl@")
    s += "impl MarkTruncation { pub open spec fn wfm(&self) -> bool { %s } }\n" % (" && ".join(links) or "true")
    return s, skips, eois


def _shard_lib(text, shard):
    """Without `skel` the lemma library is taken as proved (another run proves it)."""
    if shard is None or shard[2]:
        return text
    return re.sub(r"(?m)^(\s*)(pub (?:broadcast )?proof fn )", r"\1#[verifier::external_body] \2", text)


def _shard_fns(ix, ed, shard, report):
    """shard = (i, n, skel): verify the rule functions whose ordinal is congruent to i mod n and,
    if skel, the runtime skeleton and the lemma library.  Every other function keeps its contract and gets
    external_body here; its body is verified in exactly one other shard."""
    if shard is None:
        return
    i, n, skel = shard
    st = ix.st
    ext = set(report.get("extraction", {}).get("E8_external_rule_fns", []))
    k = 0
    mine = []
    for f in ix.fns:
        if f.i_body is None or f.parent is not None:
            continue
        if f.owner is not None and f.owner.startswith("trait "):
            continue
        head = ix.text(f.i_attr, f.i_fn)
        if "verifier::external" in head:
            continue
        if f.owner == "Parser" and f.name.startswith("rule_"):
            if f.key in ext:
                continue
            if k % n == i:
                mine.append(f.name)
            else:
                ed.insert(st[f.i_attr].s, "#[verifier::external_body] ")
            k += 1
        elif not skel:
            ed.insert(st[f.i_attr].s, "#[verifier::external_body] ")
    report["shard"] = {"index": i, "of": n, "skeleton": skel, "rule_fns": mine}


def build(gen_src, sidecars, annotate=None, report=None, user_side=None, shard=None, real_preds=None):
    """gen_src: emitted generated.rs text.  sidecars: list of side-car texts.
    annotate: function(text, report) -> text applied after the skeleton merge
    (layer G annotator).  user_side: (token_enum_text, callbacks_text) to use the
    real user side (front end); default: abstract user side."""
    if report is None:
        report = {}
    text, rep = extract(gen_src)
    report["extraction"] = rep
    gspec, skips, eois = grammar_specs(gen_src, report.get("grammar_text"), report)
    report["static_skip"] = skips
    report["eoi"] = eois
    import traitspec
    from rsx import Edits
    ix = Index(text)
    ed = Edits(text)
    for sc in sidecars:
        merge_into(ix, ed, sc, report)
    traitspec.apply(ix, ed, report)
    report["alphabet"] = token_names(gen_src)
    if annotate is not None:
        annotate(ix, ed, report)
    _shard_fns(ix, ed, shard, report)
    text = ed.apply()
    if user_side is None:
        toks = token_names(gen_src)
        toks += [n for n in skips if n not in toks]
        token_enum = "#[derive(PartialEq, Eq, Copy, Clone, Structural)]\npub enum Token { %s }\n" % ", ".join(toks)
        token_enum += "pub struct Diagnostic { pub _p: u8 }\n"
        cbs = callbacks_impl(gen_src, real_preds)
        if real_preds:
            report["real_user_predicates"] = sorted(p for p in real_preds if ("fn %s(" % p) in gen_src)
    else:
        token_enum, cbs = user_side
    parts = ["use vstd::prelude::*;\nuse vstd::std_specs::iter::IteratorSpec;\nverus! {\nglobal size_of usize == 8;\n",
             token_enum,
             gspec,
             _shard_lib(read(os.path.join(CONTRACTS, "model.vlib")), shard),
             _shard_lib(read(os.path.join(CONTRACTS, "specs.vlib")), shard),
             _shard_lib(read(os.path.join(CONTRACTS, "lemmas.vlib")), shard),
             _shard_lib(read(os.path.join(CONTRACTS, "theorems.vlib")), shard),
             "// ===== extracted from the emitted parser (E1-E9) with contracts merged =====\n",
             text,
             "\n// ===== user side =====\n",
             cbs,
             "".join(report.get("ext_specs", [])),
             "\n} // verus!\nfn main() {}\n"]
    return "".join(parts)
