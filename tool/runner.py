"""Check runner: corpus -> emitted parsers -> Verus -> obligations -> properties.

One pipeline run serves every claimed property; results are cached under /verif/.cache keyed
by the content of every input, so the per-property commands of one round share the Verus runs
and any edit to /repo invalidates exactly the affected units.
"""
import concurrent.futures as cf
import hashlib
import json
import os
import re
import shutil
import subprocess
import sys
import time

HERE = os.path.dirname(os.path.abspath(__file__))
VERIF = os.path.dirname(HERE)
REPO = os.environ.get("VERIF_REPO", "/repo")
CACHE = os.path.join(VERIF, ".cache")
RESULTS = os.path.join(CACHE, "results")
if os.path.realpath(REPO) == "/repo":
    WORK = os.path.join(CACHE, "work")
    TARGET = os.path.join(CACHE, "target")
    DRIVER_DIR = os.path.join(VERIF, "driver")
else:
    # a scratch copy of the repository (self-test, seeded changes): own work dir and driver crate
    _tag = hashlib.sha256(os.path.realpath(REPO).encode()).hexdigest()[:10]
    WORK = os.path.join(CACHE, "work_" + _tag)
    TARGET = os.path.join(CACHE, "target_alt")
    DRIVER_DIR = os.path.join(WORK, "_driver")
sys.path.insert(0, HERE)

import assemble            # noqa: E402
import annotate            # noqa: E402
from extract import Lost   # noqa: E402

VERUS_FLAGS = ["--triggers-mode", "silent", "--rlimit", "50", "--output-json", "--time-expanded", "--multiple-errors", "4"]
CLAIMED = ["C01", "C02", "C03", "C06", "C07", "C08", "C12", "C16"]


def sh(cmd, **kw):
    return subprocess.run(cmd, stdout=subprocess.PIPE, stderr=subprocess.PIPE, text=True, **kw)


def sha(*parts):
    h = hashlib.sha256()
    for p in parts:
        h.update(p.encode() if isinstance(p, str) else p)
        h.update(b"\0")
    return h.hexdigest()[:24]


_tool_hash = None


def tool_hash():
    global _tool_hash
    if _tool_hash is None:
        parts = []
        for d in ("tool", "contracts"):
            for fn in sorted(os.listdir(os.path.join(VERIF, d))):
                p = os.path.join(VERIF, d, fn)
                if fn in ("selftest.py", "mkmeta.py", "try_seeds.sh", "confirm_seed.sh", "import_seed.sh", "dev.py", "batch.sh", "vf.sh", "summ.py", "replay.py"):
                    continue          # development helpers: they do not influence a verdict
                if os.path.isfile(p) and not fn.endswith(".pyc"):
                    parts.append(fn)
                    parts.append(open(p, "rb").read())
        v = sh(["verus", "--version"]).stdout
        parts.append(v)
        _tool_hash = sha(*parts)
    return _tool_hash


# ------------------------------------------------------------------------------------------------
# driver
# ------------------------------------------------------------------------------------------------
def build_driver():
    env = dict(os.environ, CARGO_NET_OFFLINE="true", CARGO_TARGET_DIR=TARGET)
    t0 = time.time()
    if DRIVER_DIR != os.path.join(VERIF, "driver"):
        os.makedirs(os.path.join(DRIVER_DIR, "src"), exist_ok=True)
        src = os.path.join(VERIF, "driver")
        toml = open(os.path.join(src, "Cargo.toml")).read().replace('path = "/repo"', 'path = "%s"' % os.path.realpath(REPO))
        open(os.path.join(DRIVER_DIR, "Cargo.toml"), "w").write(toml)
        shutil.copy(os.path.join(src, "src", "main.rs"), os.path.join(DRIVER_DIR, "src", "main.rs"))
        os.makedirs(os.path.join(DRIVER_DIR, "src", "bin"), exist_ok=True)
        for fn in os.listdir(os.path.join(src, "src", "bin")):
            shutil.copy(os.path.join(src, "src", "bin", fn), os.path.join(DRIVER_DIR, "src", "bin", fn))
        if os.path.exists(os.path.join(src, "Cargo.lock")):
            shutil.copy(os.path.join(src, "Cargo.lock"), os.path.join(DRIVER_DIR, "Cargo.lock"))
    r = sh(["cargo", "build", "--release", "--offline", "--quiet"], cwd=DRIVER_DIR, env=env)
    if r.returncode != 0:
        return None, r.stderr[-4000:], time.time() - t0
    return os.path.join(TARGET, "release", "llwgen"), "", time.time() - t0


# ------------------------------------------------------------------------------------------------
# corpus
# ------------------------------------------------------------------------------------------------
QUICK_MICRO = ["m03_star", "m05_opt", "m07_nullable_rule", "m11_deep", "e02_cond", "e04_uncond_creation",
               "r01_rename", "n02_marker_nested", "n04_marker_loop", "t02_return_cond", "p01_pred_alt",
               "p06_assert", "p07_pred_nullable", "x03_right1", "x04_right2", "x05_prefix", "x07_mixed", "x08_call", "x13_marker",
               "q01_parts", "q02_parts_shared",
               "k01_noskip", "o03_choice_rule", "o04_choice_in_loop", "o05_choice_loop_alt", "o06_choice_elide_rename",
               "o09_choice_commit_rule", "o11_choice_star", "o12_choice_cond_elide_rename",
               "m12_loop_in_recursive", "n10_rename_nameless_creation", "x14_prefix_postfix", "x01_left", "x17_two_pratt_rules", "o14_action_after_commit",
               "p09_pred_loop_in_loop", "x18_atom_nullable_tail",
               "x19_prefix_then_right", "p10_pred_primary_leftrec", "o15_choice_rule_bottomup"]
QUICK_SKEL = {"fe", "m03_star", "k01_noskip", "q01_parts", "o03_choice_rule", "ex_json"}
# units that get the bounded native run (C16 relational clause) although Verus verifies all their functions
REL_UNITS = {"m03_star", "m05_opt", "m11_deep", "ex_json", "ex_toml", "q01_parts", "x07_mixed", "p01_pred_alt", "n04_marker_loop", "e02_cond", "t02_return_cond",
             "m07_nullable_rule", "q02_parts_shared", "x03_right1", "x14_prefix_postfix", "kf_f18_operator_follows_inside", "x18_atom_nullable_tail"}
QUICK_EX = ["calc", "json", "l", "toml"]


def corpus(tier):
    """-> list of units: dict(name, kind, src, skel)"""
    units = [dict(name="fe", kind="shipped", src=os.path.join(REPO, "src/frontend/generated.rs"))]
    units.append(dict(name="fe_regen", kind="grammar", src=os.path.join(REPO, "src/frontend/lelwel.llw")))
    exdir = os.path.join(REPO, "examples")
    exs = sorted(os.listdir(exdir)) if os.path.isdir(exdir) else []
    for e in exs:
        if tier == "quick" and e not in QUICK_EX:
            continue
        srcd = os.path.join(exdir, e, "src")
        ll = [f for f in sorted(os.listdir(srcd)) if f.endswith(".llw")] if os.path.isdir(srcd) else []
        if ll:
            units.append(dict(name="ex_" + e, kind="grammar", src=os.path.join(srcd, ll[0])))
    gd = os.path.join(VERIF, "grammars")
    for f in sorted(os.listdir(gd)):
        if not f.endswith(".llw"):
            continue
        n = f[:-4]
        if tier == "quick" and n not in QUICK_MICRO and not n.startswith("kf_") and not n.startswith("rj_"):
            continue
        units.append(dict(name=n, kind="grammar", src=os.path.join(gd, f)))
    if tier == "thorough":
        td = os.path.join(REPO, "tests/frontend")
        if os.path.isdir(td):
            for f in sorted(os.listdir(td)):
                if f.endswith(".llw"):
                    units.append(dict(name="tf_" + f[:-4], kind="grammar", src=os.path.join(td, f), optional=True))
    for u in units:
        u["skel"] = (tier == "thorough") or (u["name"] in QUICK_SKEL)
        u["tier"] = tier
    return units


# ------------------------------------------------------------------------------------------------
# one unit
# ------------------------------------------------------------------------------------------------
def generate(unit, driver):
    """-> (generated text or None, status, log)"""
    if unit["kind"] == "shipped":
        try:
            return open(unit["src"]).read(), "ok", ""
        except OSError as e:
            return None, "missing", str(e)
    d = os.path.join(WORK, unit["name"])
    shutil.rmtree(d, ignore_errors=True)
    os.makedirs(d)
    g = os.path.join(d, unit["name"] + ".llw")
    try:
        shutil.copy(unit["src"], g)
    except OSError as e:
        return None, "missing", str(e)
    # lexer.rs/parser.rs exist so that the tool does not write skeletons (they are not used)
    for f in ("lexer.rs", "parser.rs"):
        open(os.path.join(d, f), "w").write("")
    r = sh([driver, g, d])
    if r.returncode == 3:
        return None, "rejected", r.stderr[-2000:]
    if r.returncode != 0:
        return None, "generator_failed", (r.stderr or r.stdout)[-2000:]
    try:
        return open(os.path.join(d, "generated.rs")).read(), "ok", r.stderr[-2000:]
    except OSError as e:
        return None, "no_output", str(e)


ERR_HEAD = re.compile(r"^(error|note|warning)(\[E\d+\])?: (.*)$")


def parse_errors(stderr, vfile_lines, fn_ranges):
    """Split Verus' rendered diagnostics into records."""
    blocks = []
    cur = None
    for line in stderr.split("\n"):
        m = ERR_HEAD.match(line)
        if m:
            cur = {"level": m.group(1), "code": m.group(2), "msg": m.group(3), "lines": [], "text": [line]}
            blocks.append(cur)
            continue
        if cur is None:
            continue
        cur["text"].append(line)
        m = re.match(r"^\s*-->\s*(\S+?):(\d+):(\d+)", line)
        if m:
            cur["lines"].append((m.group(1), int(m.group(2))))
            continue
        m = re.match(r"^\s*:::\s*(\S+?):(\d+):(\d+)", line)
        if m:
            cur["lines"].append((m.group(1), int(m.group(2))))
            continue
        m = re.match(r"^\s*(\d+) [|/]", line)
        if m:
            cur["lines"].append((None, int(m.group(1))))
    out = []
    for b in blocks:
        if b["level"] != "error":
            continue
        if b["msg"].startswith("aborting due to"):
            continue
        own = [ln for (f, ln) in b["lines"] if f is None or f.endswith(".rs") and "std_specs" not in f and "/vstd/" not in f]
        own = [ln for ln in own if 1 <= ln <= len(vfile_lines)]
        fn = None
        # an obligation that fails inside a macro expansion (expect!, try_expect!) is reported at the macro
        # definition first; the function it belongs to is the one holding the macro invocation
        inv = []
        for i, tl in enumerate(b["text"][:-1]):
            m2 = re.match(r"^\s*(\d+) [|/]", tl)
            if m2 and "in this macro invocation" in b["text"][i + 1]:
                inv.append(int(m2.group(1)))
        for ln in [x for x in inv if 1 <= x <= len(vfile_lines)] + own:
            for (a, z, key) in fn_ranges:
                if a <= ln <= z:
                    fn = key
                    break
            if fn:
                break
        # the function whose obligation failed is the one containing the *last* own location for
        # call-site errors (call site first, callee clause later) -> prefer a location inside a fn body
        ctx = "\n".join(vfile_lines[ln - 1] for ln in sorted(set(own)))
        out.append({"msg": b["msg"], "fn": fn, "lines": sorted(set(own)), "ctx": ctx, "text": "\n".join(b["text"])[:3000]})
    return out


def fn_line_ranges(text):
    """[(first_line, last_line, key)] of exec/proof fns, by a light scan (fn headers at line start)."""
    res = []
    lines = text.split("\n")
    stack = []
    hdr = re.compile(r"^\s*(?:#\[[^\]]*\]\s*)*(?:pub\s+)?(?:(?:open|closed|broadcast|uninterp)\s+)*(?:(?:proof|spec|const|unsafe)\s+)*fn\s+(\w+)")
    impl = re.compile(r"^\s*impl\b[^{]*?\b(?:for\s+)?(\w+)\s*(?:<[^{]*>)?\s*\{")
    cur_impl = None
    depth = 0
    open_fn = []
    for i, l in enumerate(lines, 1):
        code = re.sub(r'"(?:[^"\\]|\\.)*"', '""', l)
        code = re.sub(r"//.*$", "", code)
        m = hdr.match(code)
        if m:
            open_fn.append([i, depth, m.group(1), False])
        mi = impl.match(code)
        if mi and depth <= 1:
            cur_impl = mi.group(1)
        for ch in code:
            if ch == "{":
                depth += 1
                for f in open_fn:
                    if not f[3] and f[1] == depth - 1:
                        f[3] = True
            elif ch == "}":
                depth -= 1
                for f in list(open_fn):
                    if f[3] and f[1] == depth:
                        owner = cur_impl if f[1] >= 2 else None
                        res.append((f[0], i, f[2], f[1]))
                        open_fn.remove(f)
    # build keys: nested fn (rec) gets parent's name
    res.sort()
    out = []
    for (a, z, name, d) in res:
        parent = None
        for (a2, z2, n2, d2) in res:
            if a2 < a and z2 >= z and d2 < d and n2 != name or (a2 < a and z2 > z and d2 < d):
                if parent is None or a2 > parent[0]:
                    parent = (a2, n2)
        key = (parent[1] + "::" + name) if parent else name
        out.append((a, z, key))
    # innermost first
    out.sort(key=lambda r: (r[1] - r[0]))
    return out


def run_verus(path, timeout):
    t0 = time.time()
    try:
        r = subprocess.run(["verus", path] + VERUS_FLAGS, stdout=subprocess.PIPE, stderr=subprocess.PIPE, text=True, timeout=timeout)
    except subprocess.TimeoutExpired:
        return None, "timeout after %ds" % timeout, time.time() - t0
    try:
        js = json.loads(r.stdout)
    except ValueError:
        js = None
    return js, r.stderr, time.time() - t0


def verify_unit(unit, gen_text, timeout=1500):
    """-> result dict (cached)."""
    sc = [assemble.read(os.path.join(assemble.CONTRACTS, "skeleton.vspec"))]
    gpath = unit["src"] if unit["kind"] == "grammar" else os.path.join(REPO, "src/frontend/lelwel.llw")
    try:
        grammar_text = open(gpath).read()
    except OSError:
        grammar_text = ""
    rel = unit["name"] in REL_UNITS or (unit.get("tier") == "thorough" and unit["kind"] == "grammar" and not unit["name"].startswith("kf_"))
    # the front end's own parser: its hand-written predicate (src/frontend/parser.rs) is verified as written
    real = assemble.real_predicates(os.path.join(REPO, "src/frontend/parser.rs")) if unit["name"] in ("fe", "fe_regen") else {}
    key = sha(gen_text, grammar_text, tool_hash(), json.dumps(VERUS_FLAGS), "skel" if unit["skel"] else "noskel", "rel" if rel else "norel",
              json.dumps(real, sort_keys=True))
    cpath = os.path.join(RESULTS, key + ".json")
    if os.path.exists(cpath):
        try:
            r = json.load(open(cpath))
            r["cached"] = True
            return r
        except ValueError:
            pass
    d = os.path.join(WORK, unit["name"])
    os.makedirs(d, exist_ok=True)
    res = {"unit": unit["name"], "status": "ok", "errors": [], "functions": {}, "verified": 0, "failed": 0,
           "smt_ms": 0, "wall_s": 0.0, "report": None, "cached": False, "skel": unit["skel"], "shards": 1}
    # how many rule functions?
    nrules = len(re.findall(r"(?m)^\s*fn rule_\w+\(", gen_text))
    nsh = max(1, min(8, (nrules + 39) // 40))
    res["shards"] = nsh
    texts = []
    try:
        for i in range(nsh):
            rep = {"grammar_text": grammar_text}
            t = assemble.build(gen_text, sc, annotate=annotate.annotate, report=rep, shard=(i, nsh, unit["skel"] and i == 0), real_preds=real)
            texts.append((t, rep))
    except Lost as e:
        res["status"] = "lost_anchor"
        res["detail"] = str(e)
        return res
    except Exception as e:        # an extraction bug must never look like a violation
        res["status"] = "tool_error"
        res["detail"] = "%s: %s" % (type(e).__name__, e)
        return res
    # mechanical scan: `assume(..)` / `admit()` statements in the text handed to the verifier
    res["assume_statements"] = sum(len(re.findall(r"\b(?:assume|admit)\s*\(", t)) for t, _ in texts[:1])
    rep0 = texts[0][1]
    res["report"] = {"extraction": rep0.get("extraction"), "annotator": rep0.get("annotator"),
                     "static_skip": rep0.get("static_skip"), "eoi": rep0.get("eoi"),
                     "contracts_applied": len(rep0.get("contracts_applied", [])),
                     "real_user_predicates": rep0.get("real_user_predicates", []),
                     "skip_reader_unsure": rep0.get("skip_reader_unsure"),
                     "skip_set_differs_from_grammar": rep0.get("skip_set_differs_from_grammar")}
    t0 = time.time()

    def one(i):
        t, rep = texts[i]
        p = os.path.join(d, "v%d.rs" % i)
        open(p, "w").write(t)
        js, err, wall = run_verus(p, timeout)
        return i, t, js, err, wall
    unc = ((rep0.get("annotator") or {}).get("uncontracted_calls")) or []
    if unc:
        # the runtime gained a function the contracts do not know: a caller that fails to verify says
        # nothing about the property -- undecided; the bounded stand-in below can still find a failing input
        res["status"] = "needs_contract"
        res["detail"] = "emitted rule functions call parser functions that have no contract: " + ", ".join(unc)
        outs = []
    else:
        with cf.ThreadPoolExecutor(max_workers=nsh) as ex:
            outs = list(ex.map(one, range(nsh)))
    res["wall_s"] = round(time.time() - t0, 2)
    for (i, t, js, err, wall) in outs:
        if js is None:
            res["status"] = "verus_failed"
            res["detail"] = (err or "")[-3000:]
            continue
        vr = js.get("verification-results", {})
        if vr.get("encountered-vir-error") or ("times-ms" not in js and not vr.get("verified")):
            # rustc / VIR level rejection: the emitted code is outside what the extractor expects
            res["status"] = "front_end_error"
            res["detail"] = (err or "")[-3000:]
            continue
        res["verified"] += vr.get("verified", 0)
        res["failed"] += vr.get("errors", 0)
        try:
            for m in js["times-ms"]["smt"]["smt-run-module-times"]:
                for f in m["function-breakdown"]:
                    name = f["function"]
                    name = re.sub(r"^v\d*::", "", name)
                    name = re.sub(r"impl&%\d+::", "Parser::", name)
                    e = res["functions"].setdefault(name, {"ok": True, "ms": 0, "rlimit": 0})
                    e["ok"] = e["ok"] and bool(f.get("success"))
                    e["ms"] += f["time-micros"] // 1000
                    e["rlimit"] += f.get("rlimit", 0)
                    res["smt_ms"] += f["time-micros"] // 1000
        except (KeyError, IndexError):
            pass
        if vr.get("errors", 0) or (err and re.search(r"(?m)^error", err)):
            lines = t.split("\n")
            for e in parse_errors(err, lines, fn_line_ranges(t)):
                e["shard"] = i
                res["errors"].append(e)
    ext = ((res.get("report") or {}).get("annotator") or {}).get("external") or []
    e13 = ((res.get("report") or {}).get("extraction") or {}).get("E13_rewritten_fns") or []
    if e13:
        # E13 functions are verified, but the frame of an abandoned alternative is assumed at every
        # set_state call: the bounded stand-in keeps running for them
        ext = list(ext) + ["%s (verified under E13; frame of abandoned alternatives assumed)" % f for f in e13]
    if not ext and rel:
        # C16 (and the other oracles) through the bounded native harness although every function is
        # verified: the two-run relational statement of C16 is not expressible as a contract
        ext = ["<bounded run for the relational clause of C16: parse with and without the skipped tokens>"]
    rejected = res["status"] in ("front_end_error", "verus_failed", "needs_contract")
    if rejected:
        # the verifier could not ingest the extracted text at all: nothing is proved for this unit; the
        # bounded stand-in below is the only thing that can still decide (a failing input is a violation,
        # no failing input leaves the unit undecided)
        ext = ["<whole unit: %s>" % ("a parser function without contract is called" if res["status"] == "needs_contract"
                                     else "the verifier front end rejected the extracted text")]
    if (res["status"] == "ok" and ext) or rejected:
        # bounded stand-in for the functions Verus cannot ingest (E8): exhaustive native run of the
        # real emitted parser over all short inputs.  Labelled bounded, never counted as proved.
        try:
            import falsify
            exe, info = falsify.build_harness(gen_text, os.path.join(d, "native"))
            if exe is None:
                res["bounded"] = {"status": "harness_failed", "detail": info.get("error", "")[-1500:], "functions": ext}
            else:
                n = len(info["chars"])
                ml = 6
                while ml > 2 and n ** ml > 2_000_000:
                    ml -= 1
                t1 = time.time()
                b = falsify.run_search(exe, ml, 2_500_000)
                b.update({"functions": ext, "max_len": ml, "alphabet": info["chars"], "predicate_patterns": info["predicate_patterns"],
                          "entries": info["entries"], "wall_s": round(time.time() - t1, 2)})
                res["bounded"] = b
                if unit["kind"] == "grammar" and grammar_text:
                    # bounded stand-in for the first clause of C06 (first diagnostic at the first offending token)
                    try:
                        import viable
                        t1 = time.time()
                        res["viable"] = viable.run(grammar_text, exe, info)
                        res["viable"]["wall_s"] = round(time.time() - t1, 2)
                    except Exception as e:
                        res["viable"] = {"status": "error", "detail": "%s: %s" % (type(e).__name__, e)}
        except Exception as e:
            res["bounded"] = {"status": "harness_failed", "detail": "%s: %s" % (type(e).__name__, e), "functions": ext}
    if e13 and res["status"] == "ok":
        # bounded cross-check of the E13 rewrite itself: emitted text vs. the same text with only E13
        # applied, both compiled natively, identical trees and diagnostics on every short input
        try:
            import e13check
            res["e13"] = e13check.run(gen_text, d)
        except Exception as e:
            res["e13"] = {"status": "error", "detail": "%s: %s" % (type(e).__name__, e)}
    if res["status"] == "ok":
        os.makedirs(RESULTS, exist_ok=True)
        tmp = cpath + ".tmp%d" % os.getpid()
        json.dump(res, open(tmp, "w"))
        os.replace(tmp, cpath)
    return res


# ------------------------------------------------------------------------------------------------
# classification of failed obligations
# ------------------------------------------------------------------------------------------------
FN_TAGS = [
    (r"^(CstData|Cst)::(open|close|close_root|advance|open_before|mark|new)$", {"C01", "C02"}),
    (r"^CstData::(truncate|mark_truncation)$", {"C08", "C01", "C02"}),
    (r"^Parser::(get_state|set_state)$", {"C08"}),
    (r"^Parser::(advance|init_skip)$", {"C01", "C16", "C03"}),
    (r"^Parser::(error|advance_with_error)$", {"C06", "C01"}),
    (r"^Parser::(open|close|mark|open_before|close_root|close_error_node)$", {"C01", "C02"}),
    (r"^Parser::parse", {"C01", "C02", "C03"}),
    (r"^(CstChildren::next|CstData::children|Cst::children|CstData::get|Cst::get|CstData::match_\w+|Cst::match_\w+)$", {"C01", "C02"}),
    (r"^lemma_", {"C01", "C02"}),
]


def classify(err, unit):
    """-> (set of property ids, kind)   kind in {'violation','undecided'}"""
    msg = err["msg"]
    ctx = err.get("ctx", "")
    text = err.get("text", "")
    if re.search(r"rlimit|Resource limit|timed? ?out|z3 (crashed|error)", msg, re.I):
        return set(), "undecided"
    if not (re.search(r"not satisfied|assertion failed|could not prove termination|decreases|arithmetic underflow|overflow|index|recommendation|invariant", msg)):
        return set(), "undecided"
    tags = set()
    for m in re.finditer(r"\[((?:C\d{2,3})(?:\s*,\s*C\d{2,3})*)\]", ctx):
        tags |= set(x.strip() for x in m.group(1).split(","))
    if not tags:
        if re.search(r"termination|decreases", msg):
            tags = {"C03"}
        elif re.search(r"arithmetic|overflow|underflow", msg):
            tags = {"C03"}
        elif "precondition" in msg:
            if re.search(r"pos\s*<\s*old\(self\)\.tokens@\.len\(\)", ctx):
                tags = {"C01", "C03"}
            elif "cb_node_ready" in ctx:
                tags = {"C02"}
            elif "cb_span_ok" in ctx:
                tags = {"C06", "C12"}
            elif re.search(r"\.mk\(|top_of\(", ctx):
                tags = {"C01", "C02"}
            elif re.search(r"rstack\(\)\.(last|len)\(\)", ctx):
                tags = {"C02"}
            elif "restorable" in ctx:
                tags = {"C08"}
            elif "std_specs/vec.rs" in text or "std_specs" in text:
                tags = {"C03"}
            elif re.search(r"current == Token::", ctx):
                tags = {"C03"}
            elif "in_ordered_choice" in ctx:
                tags = {"C08"}
            elif re.search(r"\.wf\(\)|pre_parse", ctx):
                tags = {"C01", "C02", "C03"}
        elif re.search(r"postcondition|invariant|assertion", msg):
            if re.search(r"\.pos\s*(>|==)\s*(old|p_\d)", ctx) and not re.search(r"step[bn]?\(", ctx):
                tags = {"C03"}
            elif re.search(r"step[bn]?\(|rstack\(\)|\.mk\(", ctx):
                tags = {"C01", "C02", "C06"}
            elif re.search(r"tree\(\)|toks@|spans@", ctx):
                tags = {"C01", "C02"}
            elif "in_ordered_choice" in ctx:
                tags = {"C08"}
    if not tags and err.get("fn"):
        key = err["fn"]
        for pat, t in FN_TAGS:
            if re.search(pat, key) or re.search(pat, "Parser::" + key) or re.search(pat, "CstData::" + key):
                tags |= t
        if not tags and re.match(r"rule_\w+", key):
            tags = {"C01", "C02", "C03"}
    if not tags:
        tags = {"C01", "C02", "C03"}
    if unit.startswith("fe"):
        tags = set(tags) | {"C12"}
    return tags, "violation"
