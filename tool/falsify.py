"""Native falsifier: illustrates a failed obligation with a concrete input on the REAL emitted
parser.  It never decides anything -- a check reports a violation because an obligation failed;
this module only tries to attach a failing input to the replay file.

The emitted generated.rs is compiled unchanged (include!) together with a harness that
  * enumerates every token sequence up to a length bound over the grammar's tokens plus the
    skipped tokens and Token::Error (one character per token), and every outcome pattern of the
    first few predicate / assertion calls,
  * runs the real Parser::parse (and every parse_<part>),
  * checks, with the tree accessors the user has (children/get/span): no panic, no hang
    (watchdog), leaves == input tokens in order with their spans (C01), extents nest and tile,
    no rule node but the root starts/ends with a skipped token, spans nest and are ordered (C02),
    created-callback announces a node of the announced kind (C02), diagnostic positions strictly
    increase and spans lie inside the source (C06).
"""
import json
import os
import re
import subprocess
import sys

HERE = os.path.dirname(os.path.abspath(__file__))
sys.path.insert(0, HERE)
import assemble   # noqa: E402

CHARS = "abcdefghijklmnopqrstuvwxyzABCDEFGHIJKLMNOPQRSTUVWXYZ0123456789+-*/=<>()[]{}!?.,;:#@%&|^~_'"

HARNESS = r'''
#![allow(dead_code, unused_variables, unused_imports, unused_mut, non_snake_case, unused_macros, unreachable_patterns, clippy::all)]
use std::sync::atomic::{AtomicU64, AtomicUsize, Ordering};
use std::sync::Mutex;

#[derive(Debug, Clone, Copy, PartialEq, Eq)]
pub enum Token { @TOKENS@ }

#[derive(Debug, Clone)]
pub struct Diagnostic { span: Span, msg: String, syntax: bool }

static PATTERN: AtomicU64 = AtomicU64::new(0);
static CALLS: AtomicUsize = AtomicUsize::new(0);
static BADCB: AtomicUsize = AtomicUsize::new(0);
static BADACT: AtomicUsize = AtomicUsize::new(0);
static LASTFLAG: AtomicUsize = AtomicUsize::new(0);
static ERRNODES: AtomicUsize = AtomicUsize::new(0);
static CURRENT: Mutex<String> = Mutex::new(String::new());
static PROGRESS: AtomicU64 = AtomicU64::new(0);

fn next_bit() -> bool {
    let k = CALLS.fetch_add(1, Ordering::SeqCst);
    if k >= 6 { return false; }
    (PATTERN.load(Ordering::SeqCst) >> k) & 1 == 1
}

fn tok_of(c: char) -> Token {
    match c { @CHARMAP@ _ => Token::Error }
}

include!("generated.rs");

impl<'a> ParserCallbacks<'a> for Parser<'a> {
    type Diagnostic = Diagnostic;
    type Context = ();
    fn create_tokens(_c: &mut Self::Context, source: &'a str, _d: &mut Vec<Self::Diagnostic>) -> (Vec<Token>, Vec<Span>) {
        let mut t = vec![]; let mut s = vec![];
        for (i, c) in source.chars().enumerate() { t.push(tok_of(c)); s.push(i..i + 1); }
        (t, s)
    }
    fn create_diagnostic(&self, span: Span, message: String) -> Self::Diagnostic { Diagnostic { span, msg: message, syntax: true } }
    // user-defined skipping: in half of the runs one ordinary token kind is skipped by the predicate
    fn predicate_skip(&self, token: Token) -> bool { (PATTERN.load(Ordering::SeqCst) >> 16) & 1 == 1 && token == Token::@PSKIP@ }
@CALLBACKS@
}

// Only the statically skipped kinds: which tokens `predicate_skip` skipped is not recorded in the tree
// (the predicate is consulted at skip positions only, e.g. not for trailing input), so the
// "no rule node starts/ends with a skipped token" clause of C02 is checked for the static kinds.
fn is_skip(t: Token) -> bool { matches!(t, Token::Error @SKIPS@) }

struct Fail(String);

fn walk(cst: &Cst<'_>, i: usize, leaves: &mut Vec<(Token, usize, Span)>, depth: usize) -> Result<usize, Fail> {
    // returns last index of the subtree of i
    if depth > 10_000 { return Err(Fail("C02 tree too deep / cyclic".into())); }
    match cst.get(NodeRef(i)) {
        Node::Token(t, idx) => { let k = usize::from(idx); leaves.push((t, k, cst.span(NodeRef(i)))); Ok(i) }
        Node::Rule(kind, off) => {
            if kind == Rule::Error { ERRNODES.fetch_add(1, Ordering::SeqCst); }
            let end = i + usize::from(off);
            let sp = cst.span(NodeRef(i));
            let mut expect = i + 1;
            let mut last_end = sp.start;
            let mut first = true;
            for c in cst.children(NodeRef(i)) {
                if c.0 != expect { return Err(Fail(format!("C02 child of node {} starts at {} but the previous sibling ended at {}", i, c.0, expect - 1))); }
                let ce = walk(cst, c.0, leaves, depth + 1)?;
                if ce > end { return Err(Fail(format!("C02 extent of child {} ({}) exceeds its parent {} ({})", c.0, ce, i, end))); }
                let cs = cst.span(c);
                if cs.start < sp.start || cs.end > sp.end || cs.start > cs.end { return Err(Fail(format!("C02 span {:?} of child {} not inside span {:?} of {}", cs, c.0, sp, i))); }
                if cs.start < last_end { return Err(Fail(format!("C02 span {:?} of child {} overlaps the previous sibling (ends {})", cs, c.0, last_end))); }
                last_end = cs.end;
                if i != 0 && first { if let Node::Token(t, _) = cst.get(c) { if is_skip(t) { return Err(Fail(format!("C02 rule node {} starts with a skipped token", i))); } } }
                first = false;
                expect = ce + 1;
            }
            if expect != end + 1 { return Err(Fail(format!("C02 children of node {} end at {} but the node ends at {}", i, expect - 1, end))); }
            if i != 0 && end > i { if let Node::Token(t, _) = cst.get(NodeRef(end)) { if is_skip(t) { return Err(Fail(format!("C02 rule node {} ends with a skipped token", i))); } } }
            Ok(end)
        }
    }
}

fn run_parse<'a>(src: &'a str, which: usize, diags: &mut Vec<Diagnostic>) -> Cst<'a> {
    let parser = Parser::new(src, diags);
    match which { @ENTRIES@ _ => parser.parse(diags) }
}

fn check(src: &str, which: usize) -> Result<(), Fail> {
    let toks: Vec<Token> = src.chars().map(tok_of).collect();
    let mut diags = vec![];
    BADCB.store(0, Ordering::SeqCst);
    BADACT.store(0, Ordering::SeqCst);
    LASTFLAG.store(0, Ordering::SeqCst);
    ERRNODES.store(0, Ordering::SeqCst);
    let cst = run_parse(src, which, &mut diags);
    let mut leaves = vec![];
    let last = walk(&cst, 0, &mut leaves, 0)?;
    if leaves.len() != toks.len() { return Err(Fail(format!("C01 the tree has {} token leaves, the input has {} tokens", leaves.len(), toks.len()))); }
    for (k, (t, idx, sp)) in leaves.iter().enumerate() {
        if *idx != k || *t != toks[k] || *sp != (k..k + 1) { return Err(Fail(format!("C01 leaf {} is ({:?}, index {}, span {:?}) but input token {} is {:?}", k, t, idx, sp, k, toks[k]))); }
    }
    if BADCB.load(Ordering::SeqCst) != 0 { return Err(Fail("C02 a created callback announced a node that does not have the announced kind".into())); }
    if BADACT.load(Ordering::SeqCst) != 0 { return Err(Fail("C08 a semantic action ran while an ordered-choice alternative could still be abandoned (in_ordered_choice was set)".into())); }
    let mut lastpos: i64 = -1;
    for d in diags.iter().filter(|d| d.syntax) {
        if d.span.start > d.span.end || d.span.end > src.len() { return Err(Fail(format!("C06 diagnostic span {:?} outside the source (len {})", d.span, src.len()))); }
        // a syntax diagnostic points at the current token -- an input token that is not (statically) skipped --
        // or, when none is left, at the end of the input (every token of this harness is one character)
        let at_end = d.span == (src.len()..src.len());
        let at_tok = d.span.end == d.span.start + 1 && d.span.start < toks.len() && !is_skip(toks[d.span.start]);
        if !(at_end || at_tok) { return Err(Fail(format!("C06 diagnostic span {:?} is neither the span of a non-skipped input token nor the end of the input (len {})", d.span, src.len()))); }
        let p = d.span.start as i64;
        if p <= lastpos && !(p == lastpos && false) { return Err(Fail(format!("C06 diagnostic at {} does not lie after the previous one at {}", p, lastpos))); }
        lastpos = p;
    }
    // the last created callback is the one for the root, after everything else: no alternative can be
    // pending any more (this is the `!in_ordered_choice` clause of the rule contract, which is only
    // ASSUMED for functions outside Verus' subset)
    if LASTFLAG.load(Ordering::SeqCst) != 0 { return Err(Fail("@CHOICEPROP@ the parse is over but the parser still believes it is inside an undoable alternative (in_ordered_choice is set): later mismatches return silently instead of being reported".into())); }
    // (any diagnostic counts: a user assertion's diagnostic also puts the parser into the error state, after
    // which skipped tokens are collected in an error node without a further report)
    if ERRNODES.load(Ordering::SeqCst) != 0 && diags.is_empty() { return Err(Fail("@CHOICEPROP@ the tree contains an error node but no diagnostic was reported (a mismatch was swallowed)".into())); }
    let _ = format!("{}", cst);
    // C16 (relational, bounded): the same input without its skipped and lexer-error tokens yields the same
    // tree once skipped leaves are ignored, and the same diagnostics at the corresponding tokens
    if toks.iter().any(|t| is_skip(*t)) {
        let stripped: String = src.chars().filter(|c| !is_skip(tok_of(*c))).collect();
        let mut diags2 = vec![];
        CALLS.store(0, Ordering::SeqCst);
        let cst2 = run_parse(&stripped, which, &mut diags2);
        let (mut a, mut b) = (String::new(), String::new());
        canon(&cst, 0, &mut a);
        canon(&cst2, 0, &mut b);
        if a != b { return Err(Fail(format!("C16 removing the skipped tokens changes the tree: with them {} -- without them {}", a, b))); }
        // position of a diagnostic = number of non-skipped tokens before it
        let map = |p: usize| -> usize { toks.iter().take(p).filter(|t| !is_skip(**t)).count() };
        let d1: Vec<(usize, &str, bool)> = diags.iter().map(|d| (map(d.span.start), d.msg.as_str(), d.syntax)).collect();
        let d2: Vec<(usize, &str, bool)> = diags2.iter().map(|d| (d.span.start, d.msg.as_str(), d.syntax)).collect();
        if d1 != d2 { return Err(Fail(format!("C16 removing the skipped tokens changes the diagnostics: with them {:?} -- without them {:?}", d1, d2))); }
    }
    Ok(())
}

// the tree with skipped token leaves left out: rule kinds and the other token leaves in pre-order
fn canon(cst: &Cst<'_>, i: usize, out: &mut String) {
    match cst.get(NodeRef(i)) {
        Node::Token(t, _) => { if !is_skip(t) { out.push_str(&format!("{:?} ", t)); } }
        Node::Rule(kind, _) => {
            out.push_str(&format!("({:?} ", kind));
            for c in cst.children(NodeRef(i)) { canon(cst, c.0, out); }
            out.push_str(") ");
        }
    }
}

fn main() {
    let args: Vec<String> = std::env::args().collect();
    let alphabet: Vec<char> = "@ALPHACHARS@".chars().collect();
    let npat: u64 = @NPAT@;
    let nentries: usize = @NENTRIES@;
    std::panic::set_hook(Box::new(|_| {}));
    std::thread::spawn(|| {
        let mut last = 0u64; let mut same = 0;
        loop {
            std::thread::sleep(std::time::Duration::from_millis(500));
            let p = PROGRESS.load(Ordering::SeqCst);
            if p == last { same += 1; } else { same = 0; last = p; }
            if same >= 20 {     // 10 s without a single finished parse (a parse of <= 7 tokens takes microseconds; the margin is for a loaded machine)
                let c = CURRENT.lock().map(|g| g.clone()).unwrap_or_default();
                println!("FAIL\t{}\tC03 the parser did not return within 10 s (non-termination)", c);
                std::process::exit(0);
            }
        }
    });
    let mut run = |src: &str| -> bool {
        for pat0 in 0..(2 * npat) {
            let pat = (pat0 % npat) | ((pat0 / npat) << 16);
            for which in 0..nentries {
                PATTERN.store(pat, Ordering::SeqCst);
                CALLS.store(0, Ordering::SeqCst);
                if let Ok(mut g) = CURRENT.lock() { *g = format!("{}\t{}\t{}", src, pat, which); }
                PROGRESS.fetch_add(1, Ordering::SeqCst);
                let s = src.to_string();
                let r = std::panic::catch_unwind(move || check(&s, which));
                match r {
                    Ok(Ok(())) => {}
                    Ok(Err(Fail(m))) => { println!("FAIL\t{}\t{}\t{}\t{}", src, pat, which, m); return true; }
                    Err(e) => {
                        let m = e.downcast_ref::<String>().cloned().or_else(|| e.downcast_ref::<&str>().map(|s| s.to_string())).unwrap_or_default();
                        println!("FAIL\t{}\t{}\t{}\tC03 panic: {}", src, pat, which, m); return true; }
                }
            }
        }
        false
    };
    if args.len() >= 3 && args[1] == "one" { if !run(&args[2]) { println!("PASS"); } return; }
    if args.len() >= 3 && args[1] == "dump" {
        // development aid: print the tree and the diagnostics of one parse (pattern 0, entry `parse`)
        let mut diags = vec![];
        let parser = Parser::new(&args[2], &mut diags);
        let cst = parser.parse(&mut diags);
        println!("{}", cst);
        for d in &diags { println!("diag {:?} {:?} syntax={}", d.span, d.msg, d.syntax); }
        return;
    }
    if args.len() >= 4 && args[1] == "diagpos" {
        // one line per input over the given characters (pattern 0, entry `parse`): position of the first
        // syntax diagnostic or -1; read by the bounded first-error check of C06 (tool/viable.py)
        let maxlen: usize = args[2].parse().unwrap_or(3);
        let chars: Vec<char> = args[3].chars().collect();
        let n = chars.len();
        let mut out = String::new();
        for len in 0..=maxlen {
            if len > 0 && n == 0 { break; }
            let mut idx = vec![0usize; len];
            loop {
                let s: String = idx.iter().map(|&i| chars[i]).collect();
                PATTERN.store(0, Ordering::SeqCst);
                CALLS.store(0, Ordering::SeqCst);
                if let Ok(mut g) = CURRENT.lock() { *g = format!("{}\t0\t0", s); }
                PROGRESS.fetch_add(1, Ordering::SeqCst);
                let s2 = s.clone();
                let r = std::panic::catch_unwind(move || {
                    let mut diags = vec![];
                    let parser = Parser::new(&s2, &mut diags);
                    let _cst = parser.parse(&mut diags);
                    diags.iter().filter(|d| d.syntax).map(|d| d.span.start as i64).next().unwrap_or(-1)
                });
                match r { Ok(p) => out.push_str(&format!("{}\t{}\n", s, p)), Err(_) => out.push_str(&format!("{}\tpanic\n", s)) }
                let mut k = len;
                let mut done = len == 0;
                while k > 0 {
                    k -= 1;
                    idx[k] += 1;
                    if idx[k] < n { break; }
                    idx[k] = 0;
                    if k == 0 { done = true; }
                }
                if done { break; }
            }
        }
        print!("{}", out);
        println!("DIAGPOS_DONE");
        return;
    }
    if args.len() >= 3 && args[1] == "digest" {
        // one line per (input, predicate pattern, entry): a hash of the printed tree and the diagnostics;
        // used to compare two builds of the same parser (E13 rewrite identity)
        use std::hash::{Hash, Hasher};
        let maxlen: usize = args[2].parse().unwrap_or(3);
        let mut total = std::collections::hash_map::DefaultHasher::new();
        let mut count: u64 = 0;
        for len in 0..=maxlen {
            let mut idx = vec![0usize; len];
            'inputs: loop {
                let s: String = idx.iter().map(|&i| alphabet[i]).collect();
                for pat0 in 0..(2 * npat) {
                    let pat = (pat0 % npat) | ((pat0 / npat) << 16);
                    for which in 0..nentries {
                        PATTERN.store(pat, Ordering::SeqCst);
                        CALLS.store(0, Ordering::SeqCst);
                        PROGRESS.fetch_add(1, Ordering::SeqCst);
                        let s2 = s.clone();
                        let r = std::panic::catch_unwind(move || {
                            let mut diags = vec![];
                            let cst = run_parse(&s2, which, &mut diags);
                            let mut out = format!("{}", cst);
                            for d in &diags { out.push_str(&format!("|{:?}{:?}{}", d.span, d.msg, d.syntax)); }
                            out
                        });
                        let text = match r { Ok(t) => t, Err(_) => "PANIC".to_string() };
                        let mut h = std::collections::hash_map::DefaultHasher::new();
                        text.hash(&mut h);
                        let hv = h.finish();
                        (s.as_str(), pat, which, hv).hash(&mut total);
                        count += 1;
                        if args.len() >= 4 && args[3] == "lines" { println!("{}\t{}\t{}\t{:016x}", s, pat, which, hv); }
                    }
                }
                let mut k = len;
                loop {
                    if k == 0 { break 'inputs; }
                    k -= 1;
                    idx[k] += 1;
                    if idx[k] < alphabet.len() { break; }
                    idx[k] = 0;
                    if k == 0 { break 'inputs; }
                }
                if len == 0 { break; }
            }
        }
        println!("DIGEST\t{}\t{:016x}", count, total.finish());
        return;
    }
    let maxlen: usize = args.get(1).and_then(|s| s.parse().ok()).unwrap_or(4);
    let budget: u64 = args.get(2).and_then(|s| s.parse().ok()).unwrap_or(2_000_000);
    let mut count: u64 = 0;
    for len in 0..=maxlen {
        let mut idx = vec![0usize; len];
        loop {
            let s: String = idx.iter().map(|&i| alphabet[i]).collect();
            count += 1;
            if run(&s) { return; }
            if count >= budget { println!("NONE\t{}\tbudget", count); return; }
            let mut k = len;
            loop {
                if k == 0 { break; }
                k -= 1;
                idx[k] += 1;
                if idx[k] < alphabet.len() { break; }
                idx[k] = 0;
                if k == 0 { k = usize::MAX; break; }
            }
            if len == 0 || k == usize::MAX { break; }
        }
    }
    println!("NONE\t{}\texhausted", count);
}
'''


def build_harness(gen_text, outdir):
    """Writes main.rs + generated.rs into outdir, compiles; returns (binary path, info) or (None, error)."""
    os.makedirs(outdir, exist_ok=True)
    toks = assemble.token_names(gen_text)
    skips = [s for s in assemble.static_skip_names(gen_text) if s != "Error"]
    eois = assemble.eoi_names(gen_text)
    usable = [t for t in toks if t not in eois and t != "Error"]
    if len(usable) + 1 > len(CHARS):
        usable = usable[:len(CHARS) - 1]
    cmap = {}
    for i, t in enumerate(usable):
        cmap[t] = CHARS[i]
    errch = CHARS[len(usable)]
    charmap = " ".join("%r => Token::%s," % (c, t) for t, c in cmap.items())
    preds = sorted(set(re.findall(r"fn (predicate_\w+)\(&self\) -> bool;", gen_text)))
    acts = sorted(set(re.findall(r"fn (action_\w+)\(&mut self", gen_text)))
    asserts = sorted(set(re.findall(r"fn (assertion_\w+)\(&self\)", gen_text)))
    cbs = []
    for p in preds:
        cbs.append("    fn %s(&self) -> bool { next_bit() }" % p)
    for a in acts:
        cbs.append("    fn %s(&mut self, _d: &mut Vec<Self::Diagnostic>) { if self.in_ordered_choice { BADACT.fetch_add(1, Ordering::SeqCst); } }" % a)
    for a in asserts:
        cbs.append("    fn %s(&self) -> Option<Self::Diagnostic> { if next_bit() { Some(Diagnostic { span: 0..0, msg: String::new(), syntax: false }) } else { None } }" % a)
    for var, name in re.findall(r"Rule::(\w+)\s*=>\s*self\s*\.\s*create_node_(\w+)\s*\(", gen_text):
        cbs.append("    fn create_node_%s(&mut self, r: NodeRef, _d: &mut Vec<Self::Diagnostic>) { LASTFLAG.store(self.in_ordered_choice as usize, Ordering::SeqCst); match self.cst.data.nodes.get(r.0) { Some(Node::Rule(Rule::%s, _)) => {}, _ => { BADCB.fetch_add(1, Ordering::SeqCst); } } }" % (name, var))
    entries = re.findall(r"pub fn (parse_\w+)\(mut self", gen_text)
    entries = [e for e in entries if e != "parse_rule"]
    ent = " ".join("%d => parser.%s(diags)," % (i + 1, e) for i, e in enumerate(entries))
    npat = 1
    if preds or asserts:
        npat = 1 << min(4, 2 * (len(preds) + len(asserts)))
    src = HARNESS
    src = src.replace("@TOKENS@", ", ".join(toks))
    src = src.replace("@CHARMAP@", charmap)
    src = src.replace("@CALLBACKS@", "\n".join(cbs))
    nonskip = [t for t in usable if t not in skips]
    src = src.replace("@PSKIP@", nonskip[-1] if nonskip else "Error")
    src = src.replace("@SKIPS@", "".join(" | Token::%s" % s for s in skips))
    src = src.replace("@CHOICEPROP@", "C08" if re.search(r"in_ordered_choice\s*=\s*true", gen_text) else "C06")
    src = src.replace("@ENTRIES@", ent)
    src = src.replace("@ALPHACHARS@", "".join(cmap.values()) + errch)
    src = src.replace("@NPAT@", str(npat))
    src = src.replace("@NENTRIES@", str(1 + len(entries)))
    open(os.path.join(outdir, "main.rs"), "w").write(src)
    open(os.path.join(outdir, "generated.rs"), "w").write(gen_text)
    exe = os.path.join(outdir, "harness")
    r = subprocess.run(["rustc", "--edition", "2021", "-C", "opt-level=2", "-C", "debug-assertions=on", "-A", "warnings", "-o", exe, os.path.join(outdir, "main.rs")],
                       stdout=subprocess.PIPE, stderr=subprocess.PIPE, text=True)
    if r.returncode != 0:
        return None, {"error": r.stderr[-3000:]}
    info = {"chars": dict((c, t) for t, c in cmap.items()), "error_char": errch, "predicate_patterns": npat, "entries": ["parse"] + entries}
    info["chars"][errch] = "Error"
    return exe, info


def run_search(exe, maxlen=5, budget=1500000, timeout=300):
    try:
        r = subprocess.run([exe, str(maxlen), str(budget)], stdout=subprocess.PIPE, stderr=subprocess.PIPE, text=True, timeout=timeout)
    except subprocess.TimeoutExpired:
        return {"status": "timeout"}
    return parse_out(r.stdout)


def run_one(exe, src, timeout=30):
    try:
        r = subprocess.run([exe, "one", src], stdout=subprocess.PIPE, stderr=subprocess.PIPE, text=True, timeout=timeout)
    except subprocess.TimeoutExpired:
        return {"status": "fail", "input": src, "what": "C03 timeout"}
    return parse_out(r.stdout)


def parse_out(out):
    for line in out.split("\n"):
        f = line.split("\t")
        if f[0] == "FAIL":
            if len(f) >= 5:
                return {"status": "fail", "input": f[1], "predicate_pattern": f[2], "entry": f[3], "what": f[4]}
            return {"status": "fail", "input": f[1] if len(f) > 1 else "", "what": f[-1]}
        if f[0] == "NONE":
            return {"status": "none", "inputs_tried": int(f[1]), "why": f[2] if len(f) > 2 else ""}
        if f[0] == "PASS":
            return {"status": "pass"}
    return {"status": "unknown", "raw": out[-500:]}


def search(unit, src_path, result, err, maxlen=5):
    """Called by ./check for a failed obligation.  -> dict describing a failing input, or None."""
    from runner import WORK
    d = os.path.join(WORK, unit)
    gp = os.path.join(d, "generated.rs")
    if unit == "fe":
        gp = src_path
    if not os.path.exists(gp):
        return None
    gen = open(gp).read()
    exe, info = build_harness(gen, os.path.join(d, "native"))
    if exe is None:
        return None
    n = len(info["chars"])
    ml = maxlen
    while ml > 2 and n ** ml > 3_000_000:
        ml -= 1
    r = run_search(exe, ml)
    if r.get("status") == "fail":
        r["token_of_char"] = info["chars"]
        r["harness"] = os.path.join(d, "native")
        r["max_len"] = ml
        return r
    return None


if __name__ == "__main__":
    gen = open(sys.argv[1]).read()
    exe, info = build_harness(gen, sys.argv[2])
    print(json.dumps(info))
    if exe:
        if len(sys.argv) > 4 and sys.argv[3] == "one":
            print(json.dumps(run_one(exe, sys.argv[4])))
        else:
            print(json.dumps(run_search(exe, int(sys.argv[3]) if len(sys.argv) > 3 else 4)))
