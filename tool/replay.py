"""check replay <path>: re-run a recorded violation against /repo's current tree.

If the replay file carries a failing input, the emitted parser is regenerated from the current
tree, compiled unchanged with the native harness and run on exactly that input (exit 1 if it
still fails, 0 if it passes now).  Otherwise the unit is re-verified and the recorded obligation
is looked up again (exit 1 if it still fails)."""
import json
import os
import sys

import runner
import falsify


def main(args):
    if not args:
        print("usage: check replay <path>")
        return 2
    rec = json.load(open(args[0]))
    unit = rec["unit"]
    driver, err, _ = runner.build_driver()
    if driver is None:
        print("UNDECIDED driver build failed")
        return 2
    hit0 = rec.get("failing_input") or {}
    if hit0.get("kind") == "fecheck":
        # a grammar text on which the front end failed: run the real front end on exactly that text
        import subprocess
        exe = os.path.join(runner.TARGET, "release", "fecheck")
        p = subprocess.run([exe, "one", hit0["file"]], stdout=subprocess.PIPE, stderr=subprocess.PIPE, text=True, timeout=120)
        bad = [l for l in p.stdout.split("\n") if l.startswith("FAIL")]
        crashed = "DONE" not in p.stdout
        print("replay front end on %s -> %s" % (hit0["file"], (bad[0][:300] if bad else ("crashed rc=%s" % p.returncode if crashed else "no failure"))))
        return 1 if (bad or crashed) else 0
    u = None
    for x in runner.corpus("thorough"):
        if x["name"] == unit:
            u = x
    if u is None:
        print("UNDECIDED unit %s is not in the corpus" % unit)
        return 2
    gen, st, lg = runner.generate(u, driver)
    if gen is None:
        print("UNDECIDED %s: %s" % (unit, st))
        return 2
    hit = rec.get("failing_input")
    if hit and hit.get("input") is not None:
        exe, info = falsify.build_harness(gen, os.path.join(runner.WORK, unit, "native"))
        if exe is None:
            print("UNDECIDED harness does not compile: %s" % info.get("error", "")[-500:])
            return 2
        if hit.get("kind") == "viable":
            import viable
            r = viable.one(open(u["src"]).read(), exe, info, hit["input"])
            print("replay unit=%s input=%r (first-error check) -> %s" % (unit, hit["input"], json.dumps(r)))
            return 1 if r.get("status") == "fail" else 0
        r = falsify.run_one(exe, hit["input"])
        print("replay unit=%s input=%r tokens=%s -> %s" % (unit, hit["input"], [info["chars"].get(c, "?") for c in hit["input"]], json.dumps(r)))
        return 1 if r.get("status") == "fail" else 0
    u["skel"] = True
    r = runner.verify_unit(u, gen)
    bad = [e for e in r.get("errors", []) if e.get("fn") == rec.get("function") and e.get("msg") == rec.get("obligation")]
    print("replay unit=%s function=%s obligation=%r: %s" % (unit, rec.get("function"), rec.get("obligation"), "still fails" if bad else "discharged now"))
    for e in bad[:1]:
        print(e.get("text", "")[:2000])
    return 1 if bad else 0
