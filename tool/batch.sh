#!/bin/sh
# dev: run the pipeline on every dir under $1 that has generated.rs, 14 at a time
ls -d $1/*/ | xargs -P 14 -I{} sh -c 'd={}; python3 /verif/tool/dev.py $d/generated.rs $d/v.rs --rlimit 200 --time-expanded --output-json > $d/out.json 2> $d/err.txt; echo "$(basename $d) $(python3 -c "import json,sys; d=json.load(open(\"$d/out.json\")); r=d[\"verification-results\"]; print(r[\"verified\"], r[\"errors\"])" 2>/dev/null || echo FAIL $(grep -m1 -E "^error|LOST" $d/err.txt))"'
