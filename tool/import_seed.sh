#!/bin/bash
# Confirm a sub-agent's seeded change in its scratch worktree and copy it to /verif/seeded/<id>/
# (patch.diff, NOTES.md, demo/ without build output).  usage: import_seed.sh <id> [<id> ...]
for id in "$@"; do
  wt=/tmp/wt_$id
  [ -f "$wt/seed/patch.diff" ] || { echo "$id: no seed/patch.diff in $wt"; continue; }
  res=$(bash /verif/tool/confirm_seed.sh "$id")
  echo "$res"
  d=/verif/seeded/$id
  mkdir -p "$d"
  cp "$wt/seed/patch.diff" "$d/patch.diff"
  [ -f "$wt/seed/NOTES.md" ] && cp "$wt/seed/NOTES.md" "$d/NOTES.md"
  if [ -d "$wt/seed/demo" ]; then
    rsync -a --delete --exclude target --exclude work --exclude '*.log' --exclude Cargo.lock "$wt/seed/demo/" "$d/demo/"
  fi
  echo "$res" > "$d/confirm.txt"
done
