"""Bounded stand-in for the FIRST clause of C06 ("the first syntax diagnostic points at the first token
after which no sentence can continue, or at end of input if the input is a proper prefix of a sentence";
no diagnostic for a sentence).  Labelled bounded, never counted as proved.

For a grammar without predicates, assertions and ordered choice (the property's own restriction) an
Earley recogniser built from the GRAMMAR TEXT - independent of lelwel's analysis - decides for every
token sequence up to a length bound how long its longest viable prefix is; the real emitted parser
(native harness of falsify.py, mode `diagpos`) must put its first syntax diagnostic exactly on the
token behind that prefix.  Alphabet: the tokens the rules use plus one token they do not use (junk).
"""
import re
import subprocess

import pratt


class Skip(Exception):
    pass


def read_grammar(text):
    decls = pratt._decls(text)
    if decls is None:
        raise Skip("the grammar text could not be split into lexemes")
    sym, skips, rules, start, order = {}, set(), {}, None, []
    for d in decls:
        if not d:
            continue
        if d[0] == "token":
            i = 1
            while i < len(d):
                if i + 2 < len(d) and d[i + 1] == "=":
                    sym[d[i + 2]] = d[i]
                    i += 3
                else:
                    i += 1
        elif d[0] == "skip":
            skips |= set(sym.get(t, t) for t in d[1:])
        elif d[0] == "start":
            start = d[1] if len(d) > 1 else None
        elif d[0] in ("right", "part"):
            continue
        elif len(d) >= 2 and re.fullmatch(r"[a-z_]\w*", d[0]) and ":" in d[:3]:
            rules[d[0]] = d[d.index(":") + 1:]
            order.append(d[0])
    return sym, skips, rules, start or (order[0] if order else None)


def parse_expr(toks, sym):
    """-> ('alt', [..]) | ('seq', [..]) | ('star', e) | ('plus', e) | ('opt', e) | ('t', Token) | ('n', rule)"""
    pos = [0]

    def peek():
        return toks[pos[0]] if pos[0] < len(toks) else None

    def alt():
        items = [seq()]
        while peek() == "|":
            pos[0] += 1
            items.append(seq())
        return ("alt", items) if len(items) > 1 else items[0]

    def seq():
        items = []
        while peek() is not None and peek() not in ("|", ")", "]"):
            t = peek()
            if t == "/":
                raise Skip("the grammar has an ordered choice")
            if t.startswith("?") or t.startswith("!"):
                raise Skip("the grammar has a predicate or an assertion")
            if t in ("^", "~", "&", ">") or t[0] in "#@<" or re.fullmatch(r"[0-9]+>\w*|>\w*", t):
                pos[0] += 1          # node operators, actions, commit, return: no effect on the language
                continue
            if t == "(":
                pos[0] += 1
                e = alt()
                if peek() != ")":
                    raise Skip("unbalanced parentheses")
                pos[0] += 1
            elif t == "[":
                pos[0] += 1
                e = ("opt", alt())
                if peek() != "]":
                    raise Skip("unbalanced brackets")
                pos[0] += 1
            elif t.startswith("'"):
                if t not in sym:
                    raise Skip("symbol %s has no token" % t)
                pos[0] += 1
                e = ("t", sym[t])
            elif re.fullmatch(r"[A-Z]\w*", t):
                pos[0] += 1
                e = ("t", t)
            elif re.fullmatch(r"[a-z_]\w*", t):
                pos[0] += 1
                e = ("n", t)
            else:
                raise Skip("element %r not understood" % t)
            while peek() in ("*", "+"):
                e = ("star" if peek() == "*" else "plus", e)
                pos[0] += 1
            items.append(e)
        return ("seq", items)

    e = alt()
    if pos[0] != len(toks):
        raise Skip("rule body not understood")
    return e


def to_cfg(rules, sym):
    prods = {}
    cnt = [0]

    def fresh():
        cnt[0] += 1
        return "_g%d" % cnt[0]

    def lower(e):
        k = e[0]
        if k in ("t", "n"):
            return e
        n = fresh()
        if k == "seq":
            prods[n] = [tuple(lower(x) for x in e[1])]
        elif k == "alt":
            prods[n] = [(lower(x),) for x in e[1]]
        elif k == "opt":
            prods[n] = [(), (lower(e[1]),)]
        elif k == "star":
            b = lower(e[1])
            prods[n] = [(), (b, ("n", n))]
        elif k == "plus":
            b = lower(e[1])
            prods[n] = [(b,), (b, ("n", n))]
        return ("n", n)

    for name, body in rules.items():
        prods.setdefault(name, []).append((lower(parse_expr(body, sym)),))
    return prods


def fix(prods, pred):
    s = set()
    ch = True
    while ch:
        ch = False
        for n, rhss in prods.items():
            if n not in s and any(pred(rhs, s) for rhs in rhss):
                s.add(n)
                ch = True
    return s


def earley(prods, nul, start, toks):
    """-> (length of the longest viable prefix, is the whole input a sentence)"""
    S = [set() for _ in range(len(toks) + 1)]
    S[0].add(("_start", (("n", start),), 0, 0))
    viable = 0
    for i in range(len(toks) + 1):
        work = list(S[i])
        while work:
            (lhs, rhs, dot, org) = work.pop()
            if dot < len(rhs):
                s = rhs[dot]
                if s[0] == "n":
                    for r in prods.get(s[1], []):
                        it = (s[1], r, 0, i)
                        if it not in S[i]:
                            S[i].add(it)
                            work.append(it)
                    if s[1] in nul:
                        it = (lhs, rhs, dot + 1, org)
                        if it not in S[i]:
                            S[i].add(it)
                            work.append(it)
                elif i < len(toks) and s[1] == toks[i]:
                    S[i + 1].add((lhs, rhs, dot + 1, org))
            else:
                for (l2, r2, d2, o2) in list(S[org]):
                    if d2 < len(r2) and r2[d2] == ("n", lhs):
                        it = (l2, r2, d2 + 1, o2)
                        if it not in S[i]:
                            S[i].add(it)
                            work.append(it)
        if i < len(toks) and S[i + 1]:
            viable = i + 1
        else:
            break
    sent = viable == len(toks) and any(l == "_start" and d == len(r) for (l, r, d, o) in S[len(toks)])
    return viable, sent


def prepare(grammar_text, info):
    """-> (prods, nullable, start, {char: token} alphabet) or raises Skip"""
    sym, skips, rules, start = read_grammar(grammar_text)
    if not rules or start not in rules:
        raise Skip("no start rule found in the grammar text")
    prods = to_cfg(rules, sym)
    nul = fix(prods, lambda rhs, s: all(x[0] == "n" and x[1] in s for x in rhs))
    productive = fix(prods, lambda rhs, s: all(x[0] == "t" or x[1] in s for x in rhs))
    if any(n not in productive for n in prods):
        # the viable-prefix reading of the Earley sets needs every rule to derive some token string
        raise Skip("a rule derives no finite token string")
    used = set(x[1] for rhss in prods.values() for rhs in rhss for x in rhs if x[0] == "t")
    chars = {c: t for c, t in info["chars"].items() if t in used and t not in skips}
    if len(chars) != len(used - skips):
        raise Skip("a token of the rules has no character in the harness")
    junk = sorted(c for c, t in info["chars"].items() if t not in used and t not in skips and t != "Error")
    if junk:
        chars[junk[0]] = info["chars"][junk[0]]
    return prods, nul, start, chars


def expected(prods, nul, start, toks):
    k, sent = earley(prods, nul, start, toks)
    return -1 if sent else k


def run(grammar_text, exe, info, budget=40000, timeout=300):
    try:
        prods, nul, start, chars = prepare(grammar_text, info)
    except Skip as e:
        return {"status": "not_applicable", "why": str(e)}
    alpha = "".join(sorted(chars))
    maxlen = 7
    while maxlen > 2 and sum(len(alpha) ** k for k in range(maxlen + 1)) > budget:
        maxlen -= 1
    try:
        p = subprocess.run([exe, "diagpos", str(maxlen), alpha], stdout=subprocess.PIPE, stderr=subprocess.PIPE, text=True, timeout=timeout)
    except subprocess.TimeoutExpired:
        return {"status": "timeout"}
    if "DIAGPOS_DONE" not in p.stdout:
        # the watchdog of the harness reports a hang as a FAIL line (C03), that is the other oracle's business
        return {"status": "harness_incomplete", "detail": p.stdout[-300:]}
    n = 0
    fails = []
    for line in p.stdout.split("\n"):
        f = line.split("\t")
        if len(f) != 2:
            continue
        s, got = f
        if got == "panic":
            continue        # reported by the main oracle (C03)
        n += 1
        toks = [chars[c] for c in s]
        want = expected(prods, nul, start, toks)
        if int(got) != want:
            if len(fails) < 5:
                fails.append({"input": s, "tokens": toks, "first_diagnostic_at": int(got), "expected_at": want})
            else:
                fails.append(None)
    res = {"status": "fail" if fails else "ok", "inputs": n, "max_len": maxlen, "alphabet": chars, "mismatches": len(fails)}
    if fails:
        f = fails[0]
        res["input"] = f["input"]
        res["examples"] = [x for x in fails if x]
        res["what"] = "C06 " + describe(f)
    return res


def describe(f):
    def where(p, n):
        return "no syntax diagnostic" if p < 0 else ("a diagnostic at end of input" if p >= n else "the first syntax diagnostic at token %d (%s)" % (p, f["tokens"][p]))
    n = len(f["tokens"])
    if f["expected_at"] < 0:
        exp = "the input is a sentence of the grammar: no syntax diagnostic is due"
    elif f["expected_at"] >= n:
        exp = "the input is a proper prefix of a sentence: the first diagnostic is due at end of input"
    else:
        exp = "no sentence continues after the first %d token(s): the first diagnostic is due at token %d (%s)" % (f["expected_at"], f["expected_at"], f["tokens"][f["expected_at"]])
    return "tokens %s: the parser reports %s; %s (Earley recogniser on the grammar text)" % (" ".join(f["tokens"]), where(f["first_diagnostic_at"], n), exp)


def one(grammar_text, exe, info, s):
    """replay of a single input -> dict(status fail/pass/..)"""
    try:
        prods, nul, start, chars = prepare(grammar_text, info)
    except Skip as e:
        return {"status": "not_applicable", "why": str(e)}
    allc = dict(info["chars"])
    if any(c not in allc for c in s):
        return {"status": "not_applicable", "why": "input uses a character the harness does not know"}
    p = subprocess.run([exe, "dump", s], stdout=subprocess.PIPE, stderr=subprocess.PIPE, text=True, timeout=30)
    ds = [int(m.group(1)) for m in re.finditer(r"(?m)^diag (\d+)\.\.\d+ .* syntax=true", p.stdout)]
    got = ds[0] if ds else -1
    toks = [allc[c] for c in s]
    want = expected(prods, nul, start, toks)
    f = {"input": s, "tokens": toks, "first_diagnostic_at": got, "expected_at": want}
    return {"status": "fail" if got != want else "pass", "input": s, "what": "C06 " + describe(f)}
