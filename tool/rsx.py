"""Minimal Rust lexer + structural index used by the extractor and the annotator.

Works on token level so that raw lelwel output and rustfmt-ed copies of it go
through the same code.  Nothing here interprets Rust; it only finds items,
signatures, bodies, loops and statements by bracket matching.
"""
import re

TOK_RE = re.compile(r"""
  (?P<ws>\s+)
 |(?P<lc>//[^\n]*)
 |(?P<bc>/\*.*?\*/)
 |(?P<rstr>r\#*"(?:.|\n)*?"\#*)
 |(?P<str>b?"(?:[^"\\]|\\.)*")
 |(?P<char>b?'(?:[^'\\\n]|\\(?:[^u\n]|u\{[0-9a-fA-F]+\}))')
 |(?P<life>'[A-Za-z_][A-Za-z0-9_]*)
 |(?P<id>[A-Za-z_][A-Za-z0-9_]*)
 |(?P<num>[0-9][0-9A-Za-z_]*)
 |(?P<p>::|->|=>|==|!=|<=|>=|&&|\|\||\+=|-=|\.\.=|\.\.|[{}()\[\]<>;,.:=!&|+\-*/%^#@?$~])
""", re.X | re.S)


class Tok:
    __slots__ = ("k", "t", "s", "e")

    def __init__(self, k, t, s, e):
        self.k, self.t, self.s, self.e = k, t, s, e

    def __repr__(self):
        return "%s:%r@%d" % (self.k, self.t, self.s)


class LexError(Exception):
    pass


def lex(src):
    """All tokens including whitespace/comments (kinds ws, lc, bc)."""
    out = []
    i = 0
    n = len(src)
    while i < n:
        m = TOK_RE.match(src, i)
        if not m:
            raise LexError("cannot lex at offset %d: %r" % (i, src[i:i + 30]))
        k = m.lastgroup
        out.append(Tok(k, m.group(0), i, m.end()))
        i = m.end()
    return out


def sig(toks):
    """Significant tokens only."""
    return [t for t in toks if t.k not in ("ws", "lc", "bc")]


OPEN = {"{": "}", "(": ")", "[": "]"}
CLOSE = {v: k for k, v in OPEN.items()}


def match_brackets(st):
    """Map index of each opening bracket in `st` (significant tokens) to the
    index of its closing bracket and vice versa.  Angle brackets are not
    matched."""
    stack = []
    pair = {}
    for i, t in enumerate(st):
        if t.k != "p":
            continue
        if t.t in OPEN:
            stack.append(i)
        elif t.t in CLOSE:
            if not stack:
                raise LexError("unbalanced %r at %d" % (t.t, t.s))
            j = stack.pop()
            if OPEN[st[j].t] != t.t:
                raise LexError("mismatched %r at %d" % (t.t, t.s))
            pair[j] = i
            pair[i] = j
    if stack:
        raise LexError("unclosed bracket at %d" % st[stack[-1]].s)
    return pair


class Fn:
    """One `fn` item.  Offsets are into the source text."""

    def __init__(self):
        self.name = None
        self.owner = None        # e.g. "Parser", "CstData", "trait ParserCallbacks", "usize"
        self.trait = None        # for trait impls: trait name
        self.parent = None       # enclosing Fn for nested fns
        self.key = None
        self.i_fn = None         # token index of `fn`
        self.i_attr = None       # token index where attributes/visibility start
        self.i_lparen = None
        self.i_rparen = None
        self.i_body = None       # token index of `{` (None for trait decl without body)
        self.i_end = None        # token index of `}` or `;`
        self.has_ret = False
        self.i_arrow = None
        self.i_where = None


class Index:
    def __init__(self, src):
        self.src = src
        self.toks = lex(src)
        self.st = sig(self.toks)
        self.pair = match_brackets(self.st)
        self.fns = []
        self.impls = []   # (owner, trait, i_open, i_close)
        self._scan(0, len(self.st), None, None, None)
        self.by_key = {}
        for f in self.fns:
            self.by_key.setdefault(f.key, []).append(f)

    # ------------------------------------------------------------------
    def _skip_generics(self, i):
        """`i` at '<': return index after the matching '>' (handles nesting and
        '->' inside, e.g. Fn(..) -> T)."""
        st = self.st
        assert st[i].t == "<"
        d = 0
        while True:
            t = st[i]
            if t.k == "p":
                if t.t == "<":
                    d += 1
                elif t.t == ">":
                    d -= 1
                    if d == 0:
                        return i + 1
                elif t.t in OPEN:
                    i = self.pair[i]
            i += 1

    def _attr_start(self, i, lo):
        """Walk back from `fn` over `pub`, `pub(crate)`, `const`, `unsafe`, and
        attributes `#[..]`."""
        st = self.st
        j = i
        while j - 1 >= lo:
            p = st[j - 1]
            if p.k == "id" and p.t in ("pub", "const", "unsafe", "async", "extern"):
                j -= 1
                continue
            if p.t == ")" and self.pair[j - 1] - 1 >= lo and st[self.pair[j - 1] - 1].t == "pub":
                j = self.pair[j - 1] - 1
                continue
            if p.t == "]":
                k = self.pair[j - 1]
                if k - 1 >= lo and st[k - 1].t == "#":
                    j = k - 1
                    continue
            break
        return j

    def _scan(self, lo, hi, owner, trait, parent):
        st = self.st
        i = lo
        while i < hi:
            t = st[i]
            if t.k == "id" and t.t == "macro_rules" and i + 1 < hi and st[i + 1].t == "!":
                # macro_rules! name { ... }
                j = i + 3
                i = self.pair[j] + 1
                continue
            if t.k == "id" and t.t in ("impl", "trait") and (i == lo or st[i - 1].t not in (":", "<", "&", "(", ",", "->", "=", "+")):
                # header up to '{'
                j = i + 1
                if st[j].t == "<":
                    j = self._skip_generics(j)
                hdr = []
                while st[j].t != "{":
                    if st[j].t == "<":
                        j = self._skip_generics(j)
                        continue
                    if st[j].t == "where":
                        break
                    hdr.append(st[j].t)
                    j += 1
                while st[j].t != "{":
                    j += 1
                if t.t == "trait":
                    own, tr = "trait " + hdr[0], None
                elif "for" in hdr:
                    k = hdr.index("for")
                    tr = [x for x in hdr[:k] if x not in ("::", "std", "core", "fmt", "iter", "convert")][-1]
                    own = [x for x in hdr[k + 1:] if x not in ("::", "std", "core")][-1]
                else:
                    own, tr = hdr[-1], None
                    for x in hdr:
                        if x not in ("::",):
                            own = x
                            break
                close = self.pair[j]
                self.impls.append((own, tr, j, close))
                self._scan(j + 1, close, own, tr, None)
                i = close + 1
                continue
            if t.k == "id" and t.t == "fn" and i + 1 < hi and st[i + 1].k == "id":
                f = Fn()
                f.name = st[i + 1].t
                f.owner, f.trait, f.parent = owner, trait, parent
                f.i_fn = i
                f.i_attr = self._attr_start(i, lo)
                j = i + 2
                if st[j].t == "<":
                    j = self._skip_generics(j)
                assert st[j].t == "(", (f.name, st[j])
                f.i_lparen = j
                f.i_rparen = self.pair[j]
                j = f.i_rparen + 1
                if st[j].t == "->":
                    f.has_ret = True
                    f.i_arrow = j
                while st[j].t not in ("{", ";"):
                    if st[j].t == "where" and f.i_where is None:
                        f.i_where = j
                    if st[j].t == "<":
                        j = self._skip_generics(j)
                        continue
                    if st[j].t in OPEN and st[j].t != "{":
                        j = self.pair[j] + 1
                        continue
                    j += 1
                if st[j].t == "{":
                    f.i_body = j
                    f.i_end = self.pair[j]
                else:
                    f.i_end = j
                if parent is not None:
                    f.key = parent.key + "::" + f.name
                elif owner is not None:
                    f.key = owner + "::" + f.name
                else:
                    f.key = f.name
                self.fns.append(f)
                if f.i_body is not None:
                    self._scan(f.i_body + 1, f.i_end, owner, trait, f)
                i = f.i_end + 1
                continue
            i += 1

    # ------------------------------------------------------------------
    def fn(self, key, nth=None):
        l = self.by_key.get(key, [])
        if nth is None:
            if len(l) != 1:
                raise KeyError("anchor %s: %d matches" % (key, len(l)))
            return l[0]
        return l[nth]

    def loops_in(self, f):
        """Token indices of `loop`/`while`/`for` keywords directly belonging to
        fn `f` (not to nested fns), in source order, with the index of the body
        '{'."""
        st = self.st
        res = []
        nested = [(g.i_attr, g.i_end) for g in self.fns if g.parent is f]
        i = f.i_body + 1
        while i < f.i_end:
            skip = False
            for a, b in nested:
                if a <= i <= b:
                    i = b + 1
                    skip = True
                    break
            if skip:
                continue
            t = st[i]
            if t.k == "id" and t.t in ("loop", "while", "for") and st[i - 1].t != ".":
                j = i + 1
                while st[j].t != "{":
                    if st[j].t in OPEN:
                        j = self.pair[j] + 1
                    else:
                        j += 1
                res.append((i, j))
            i += 1
        return res

    def text(self, i, j):
        """Source text from token i (start) to token j (end, inclusive)."""
        return self.src[self.st[i].s:self.st[j].e]


class Edits:
    """Collect insertions/replacements on a source string, apply at once."""

    def __init__(self, src):
        self.src = src
        self.ops = []   # (start, end, text, seq)

    def insert(self, pos, text):
        self.ops.append((pos, pos, text, len(self.ops)))

    def replace(self, s, e, text):
        self.ops.append((s, e, text, len(self.ops)))

    def apply(self):
        ops = sorted(self.ops, key=lambda o: (o[0], o[3]))
        out = []
        cur = 0
        for s, e, t, _ in ops:
            if s < cur:
                raise ValueError("overlapping edits at %d" % s)
            out.append(self.src[cur:s])
            out.append(t)
            cur = e
        out.append(self.src[cur:])
        return "".join(out)
