"""Precedence tables read from the GRAMMAR TEXT (not from lelwel's analysis, not from emitted
constants), for the C07 binding-discipline contracts.

For a directly left-recursive rule X the top-level alternatives that start and/or end with X are
its recursive branches, in order of appearance: an earlier branch binds tighter.  With n such
branches, branch i (0-based) has level n - i; a left-associative infix branch has binding powers
(left, right) = (2*level, 2*level + 1), a right-associative one (2*level + 1, 2*level); prefix
and postfix branches use 2*level.  (This is the numbering the property's wording induces:
"earlier binds tighter, one branch groups to the left, a `right` branch to the right"; the
generated lemma `lemma_c07_table_*` proves that the numbers satisfy exactly those inequalities.)
"""
import re


def _strip_comments(g):
    out = []
    i = 0
    n = len(g)
    while i < n:
        c = g[i]
        if c == "'":
            j = i + 1
            while j < n and g[j] != "'":
                j += 2 if g[j] == "\\" else 1
            out.append(g[i:j + 1])
            i = j + 1
        elif g.startswith("//", i):
            while i < n and g[i] != "\n":
                i += 1
        elif g.startswith("/*", i):
            j = g.find("*/", i + 2)
            i = n if j < 0 else j + 2
        else:
            out.append(c)
            i += 1
    return "".join(out)


TOK = re.compile(r"\s+|'(?:[^'\\]|\\.)*'|[A-Za-z_][A-Za-z0-9_]*|\?[A-Za-z0-9_]+|#[0-9]+|![0-9]+|@[A-Za-z0-9_]*|<[0-9]+|[0-9]+>[A-Za-z0-9_]*|>[A-Za-z0-9_]*|[()\[\]|/*+^~&:;=]")


def _lex(s):
    out = []
    i = 0
    while i < len(s):
        m = TOK.match(s, i)
        if not m:
            return None
        if not m.group(0).isspace():
            out.append(m.group(0))
        i = m.end()
    return out


def _decls(g):
    toks = _lex(_strip_comments(g))
    if toks is None:
        return None
    decls, cur = [], []
    for t in toks:
        if t == ";":
            decls.append(cur)
            cur = []
        else:
            cur.append(t)
    return decls


def _elements(alt):
    """Top-level elements of one alternative: list of (kind, text); postfix operators attach."""
    els = []
    i = 0
    while i < len(alt):
        t = alt[i]
        if t in ("(", "["):
            close = ")" if t == "(" else "]"
            d = 0
            j = i
            while True:
                if alt[j] in ("(", "["):
                    d += 1
                elif alt[j] in (")", "]"):
                    d -= 1
                    if d == 0:
                        break
                j += 1
            els.append(("group", alt[i:j + 1]))
            i = j + 1
        elif t in ("*", "+"):
            if els:
                els[-1] = ("postfix", els[-1][1])
            i += 1
        else:
            kind = "name" if re.fullmatch(r"[A-Za-z_]\w*", t) else ("sym" if t.startswith("'") else "op")
            els.append((kind, t))
            i += 1
    return els


def tables(grammar_text):
    """-> {rule: {"branches": [{"kind": "left"|"right"|"leftright"}], "right_names": set}} for every
    rule with at least one recursive branch; plus "_right" (names declared right) and "_sym" map."""
    decls = _decls(grammar_text)
    if decls is None:
        return None
    sym = {}
    right = set()
    rules = {}
    for d in decls:
        if not d:
            continue
        if d[0] == "token":
            i = 1
            while i < len(d):
                if i + 2 < len(d) and d[i + 1] == "=":
                    sym[d[i + 2]] = d[i]
                    i += 3
                else:
                    i += 1
        elif d[0] == "right":
            for t in d[1:]:
                right.add(t)
        elif len(d) >= 2 and re.fullmatch(r"[a-z_]\w*", d[0]) and (d[1] == ":" or (d[1] == "^" and len(d) > 2 and d[2] == ":")):
            body = d[d.index(":") + 1:]
            rules[d[0]] = body
    right_names = set(sym.get(t, t) for t in right)
    res = {"_right": right_names, "_sym": sym}
    for name, body in rules.items():
        # split the body on `|` at depth 0
        alts, cur, depth = [], [], 0
        for t in body:
            if t in ("(", "["):
                depth += 1
            elif t in (")", "]"):
                depth -= 1
            if t == "|" and depth == 0:
                alts.append(cur)
                cur = []
            else:
                cur.append(t)
        alts.append(cur)
        if len(alts) < 2:
            continue
        branches = []
        for alt in alts:
            els = [e for e in _elements(alt) if not (e[0] == "op" and (e[1].startswith("?") or e[1].startswith("@") or e[1] == "^" or e[1].startswith("#")))]
            if len(els) < 1:
                continue
            is_x = lambda e: e[0] == "name" and e[1] == name
            left = is_x(els[0])
            rightrec = len(els) >= 2 and is_x(els[-1])
            if left and rightrec:
                branches.append({"kind": "leftright"})
            elif left:
                branches.append({"kind": "left"})
            elif rightrec:
                branches.append({"kind": "right"})
        if any(b["kind"] in ("left", "leftright") for b in branches):
            res[name] = {"branches": branches}
    return res


def powers(nbranches, i, kind, rassoc):
    """(left power, right power) of branch i."""
    level = nbranches - i
    if kind == "leftright" and rassoc:
        return 2 * level + 1, 2 * level
    return 2 * level, 2 * level + 1


if __name__ == "__main__":
    import sys
    import json
    t = tables(open(sys.argv[1]).read())
    print(json.dumps({k: (sorted(v) if isinstance(v, set) else v) for k, v in t.items()}, indent=1, default=str))
