"""Kani leaf harnesses (DESIGN 2.5): the functions of the emitted runtime that Verus cannot ingest.

The REAL text of CstIndex (+ its two conversions), Parser::is_skipped/peek/peek_left/span and
CstData::span is cut out of a parser emitted from /repo's current tree (or of the shipped
src/frontend/generated.rs) and included, unchanged, into a copy of /verif/kani (the structs
around them are cut down to the fields these functions read).  The reference skip set used by
the specs comes from the GRAMMAR's `skip` declaration, not from the emitted text.
  * CstIndex round trip and bound: loop-free, full domain          -> complete proof (E2)
  * peek / peek_left / span vs. their specs: <= 4 tokens, unwind 7  -> BOUNDED (E3)
  * CstData::span vs. its spec: <= 3 nodes, unwind 5                -> BOUNDED (E3)
"""
import concurrent.futures as cf
import hashlib
import json
import os
import re
import shutil
import subprocess
import sys
import time

HERE = os.path.dirname(os.path.abspath(__file__))
VERIF = os.path.dirname(HERE)
sys.path.insert(0, HERE)
from rsx import Index   # noqa: E402

HARNESSES = [("cidx_roundtrip", "complete", "E2"), ("cidx_bound", "complete", "E2"),
             ("peek_matches_spec", "bounded", "E3"), ("peek_left_matches_spec", "bounded", "E3"),
             ("span_matches_spec", "bounded", "E3"), ("cst_span_matches_spec", "bounded", "E3")]
BOUNDS = {"peek_matches_spec": "<= 4 tokens, lookahead <= 4, unwind 7", "peek_left_matches_spec": "<= 4 tokens, lookbehind <= 4, unwind 7",
          "span_matches_spec": "<= 4 tokens, unwind 7", "cst_span_matches_spec": "<= 3 nodes, unwind 5",
          "cidx_roundtrip": "none (loop-free, all x < 2^48)", "cidx_bound": "none (loop-free, all [u8;6])"}


class Lost(Exception):
    pass


def fn_text(ix, key, nth=None):
    try:
        f = ix.fn(key, nth)
    except (KeyError, IndexError):
        raise Lost("function %s not found" % key)
    return ix.src[ix.st[f.i_attr].s:ix.st[f.i_end].e]


def extract(gen):
    ix = Index(gen)
    out = []
    m = re.search(r"#\[cfg\(target_pointer_width = \"64\"\)\]\s*#\[derive\(Copy, Clone\)\]\s*pub struct CstIndex\(\[u8; 6\]\);", gen)
    if not m:
        raise Lost("64-bit CstIndex definition not found")
    out.append("#[derive(Debug, Copy, Clone)]\npub struct CstIndex(pub [u8; 6]);\n")
    for own, tr, i_open, i_close in ix.impls:
        if tr == "From" and own in ("usize", "CstIndex"):
            j = i_open
            while ix.st[j].t != "impl":
                j -= 1
            out.append(ix.src[ix.st[j].s:ix.st[i_close].e] + "\n")
    if len(out) != 3:
        raise Lost("CstIndex conversions not found")
    out.append("pub struct CstData { pub spans: Vec<Span>, pub nodes: Vec<Node> }\npub struct Cst { pub data: CstData }\n"
               "pub struct Parser { pub tokens: Vec<Token>, pub pos: usize, pub end_of_input: Token, pub max_offset: usize, pub cst: Cst }\n")
    out.append("impl Parser {\n" + "\n".join(fn_text(ix, k) for k in ("Parser::is_skipped", "Parser::peek", "Parser::peek_left", "Parser::span")) + "\n}\n")
    out.append("impl CstData {\n" + fn_text(ix, "CstData::span") + "\n}\n")
    return "".join(out)


def declared_skips(grammar_text):
    """Token names of the grammar's `skip` declarations (symbols are resolved through `token`)."""
    # comments out, but not what looks like a comment start inside a quoted symbol (lua: SlashSlash='//')
    g = re.sub(r"('(?:[^'\\\n]|\\.)*')|//[^\n]*|/\*.*?\*/", lambda m: m.group(1) or " ", grammar_text, flags=re.S)
    sym = dict((s, n) for n, s in re.findall(r"\b([A-Z]\w*)\s*=\s*('(?:[^'\\]|\\.)*')", g))
    # replace every quoted symbol by a placeholder so that `;` and keywords inside quotes do not count
    lits = []

    def keep(m):
        lits.append(m.group(0))
        return " \x00%d\x00 " % (len(lits) - 1)
    g2 = re.sub(r"'(?:[^'\\]|\\.)*'", keep, g)
    names = []
    for stmt in g2.split(";"):
        w = stmt.split()
        if not w or w[0] != "skip":
            continue
        for it in w[1:]:
            m = re.fullmatch(r"\x00(\d+)\x00", it)
            n = sym.get(lits[int(m.group(1))]) if m else it
            if n and re.fullmatch(r"[A-Za-z_]\w*", n) and n not in names:
                names.append(n)
    return names


def declared_tokens(grammar_text):
    """Names of the grammar's `token` declarations (for a sanity check of the reader above)."""
    g = re.sub(r"('(?:[^'\\\n]|\\.)*')|//[^\n]*|/\*.*?\*/", lambda m: " ' " if m.group(1) else " ", grammar_text, flags=re.S)
    names = set()
    for stmt in g.split(";"):
        w = stmt.replace("=", " = ").split()
        if not w or w[0] != "token":
            continue
        names |= set(x for x in w[1:] if re.fullmatch(r"[A-Za-z_]\w*", x))
    return names


def tokens_rs(skips, emitted_skip_names):
    extra = [n for n in emitted_skip_names if n not in skips and n not in ("Error", "EOF")]
    names = ["EOF", "Error", "T0_", "T1_"] + list(skips) + extra
    s = "#[derive(Debug, Copy, Clone, PartialEq, Eq)]\n#[allow(non_camel_case_types)]\npub enum Token { %s }\n" % ", ".join(names)
    s += "pub const TOKENS: [Token; %d] = [%s];\n" % (len(names), ", ".join("Token::" + n for n in names))
    s += "pub fn is_skip(t: Token) -> bool { matches!(t, Token::Error%s) }\n" % "".join(" | Token::" + n for n in skips)
    return s


def run(gen, grammar_text, tag="leaf", timeout=900):
    """-> result dict; cached by content."""
    src_dir = os.path.join(VERIF, "kani")
    try:
        ext = extract(gen)
    except Lost as e:
        return {"status": "lost_anchor", "detail": str(e), "harnesses": {}}
    m = re.search(r"fn is_skipped\(token: Token\) -> bool \{\s*matches!\(token,([^)]*)\)", gen)
    emitted = re.findall(r"Token::(\w+)", m.group(1)) if m else []
    toks = tokens_rs(declared_skips(grammar_text), emitted)
    lib = open(os.path.join(src_dir, "src", "lib.rs")).read()
    key = hashlib.sha256((ext + "\0" + toks + "\0" + lib).encode()).hexdigest()[:24]
    cdir = os.path.join(VERIF, ".cache", "results")
    cpath = os.path.join(cdir, "kani_" + key + ".json")
    if os.path.exists(cpath):
        try:
            r = json.load(open(cpath))
            r["cached"] = True
            return r
        except ValueError:
            pass
    d = os.path.join(VERIF, ".cache", "kani_" + tag)
    shutil.rmtree(d, ignore_errors=True)
    os.makedirs(os.path.join(d, "src"))
    os.makedirs(os.path.join(d, ".cargo"))
    shutil.copy(os.path.join(src_dir, "Cargo.toml"), d)
    shutil.copy(os.path.join(src_dir, ".cargo", "config.toml"), os.path.join(d, ".cargo"))
    shutil.copy(os.path.join(src_dir, "src", "lib.rs"), os.path.join(d, "src"))
    open(os.path.join(d, "src", "extracted.rs"), "w").write(ext)
    open(os.path.join(d, "src", "tokens.rs"), "w").write(toks)
    env = dict(os.environ, CARGO_NET_OFFLINE="true", CARGO_TARGET_DIR=os.path.join(VERIF, ".cache", "kani_target_" + tag))
    res = {"harnesses": {}, "status": "ok", "cached": False}

    def one(h):
        name, kind, rule = h
        t0 = time.time()
        try:
            r = subprocess.run(["cargo", "kani", "--harness", name, "--target-dir", os.path.join(VERIF, ".cache", "kani_target_%s_%s" % (tag, name))],
                               cwd=d, env=env, stdout=subprocess.PIPE, stderr=subprocess.STDOUT, text=True, timeout=timeout)
            out = r.stdout
        except subprocess.TimeoutExpired:
            return name, {"kind": kind, "rule": rule, "bound": BOUNDS[name], "result": "timeout", "wall_s": timeout}
        ok = "VERIFICATION:- SUCCESSFUL" in out
        fail = "VERIFICATION:- FAILED" in out
        checks = re.search(r"\*\* (\d+) of (\d+) failed", out)
        failed = re.findall(r"(?m)^Failed Checks: (.*)$", out)
        return name, {"kind": kind, "rule": rule, "bound": BOUNDS[name], "result": "success" if ok else ("failed" if fail else "error"),
                      "wall_s": round(time.time() - t0, 1), "checks": int(checks.group(2)) if checks else None,
                      "failed_checks": failed[:5], "tail": "" if ok else out[-600:]}
    with cf.ThreadPoolExecutor(max_workers=6) as ex:
        for name, r in ex.map(one, HARNESSES):
            res["harnesses"][name] = r
    if all(h["result"] in ("success", "failed") for h in res["harnesses"].values()):
        os.makedirs(cdir, exist_ok=True)
        json.dump(res, open(cpath, "w"))
    return res


if __name__ == "__main__":
    print(json.dumps(run(open(sys.argv[1]).read(), open(sys.argv[2]).read(), tag=(sys.argv[3] if len(sys.argv) > 3 else "leaf")), indent=1))
