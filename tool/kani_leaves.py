"""Kani leaf harnesses (DESIGN 2.5): the functions of the emitted runtime that Verus cannot ingest.

The REAL text of CstIndex (+ its two conversions), Parser::is_skipped/peek/peek_left/span and
CstData::span is cut out of a parser emitted from /repo's current tree and included, unchanged,
into /verif/kani (the structs around them are cut down to the fields these functions read).
  * CstIndex round trip and bound: loop-free, full domain  -> complete proof (E2)
  * peek / peek_left / span against their specs: <= 4 tokens, unwind 7 -> BOUNDED (E3)
"""
import json
import os
import re
import subprocess
import sys
import time

HERE = os.path.dirname(os.path.abspath(__file__))
VERIF = os.path.dirname(HERE)
sys.path.insert(0, HERE)
from rsx import Index

HARNESSES = [("cidx_roundtrip", "complete"), ("cidx_bound", "complete"),
             ("peek_matches_spec", "bounded"), ("peek_left_matches_spec", "bounded"), ("span_matches_spec", "bounded"), ("cst_span_matches_spec", "bounded")]


class Lost(Exception):
    pass


def fn_text(ix, key, nth=None):
    try:
        f = ix.fn(key, nth)
    except (KeyError, IndexError):
        raise Lost("function %s not found" % key)
    return ix.src[ix.st[f.i_attr].s:ix.st[f.i_end].e]


def extract(gen):
    ix = Index(gen)
    out = []
    m = re.search(r"#\[cfg\(target_pointer_width = \"64\"\)\]\s*#\[derive\(Copy, Clone\)\]\s*pub struct CstIndex\(\[u8; 6\]\);", gen)
    if not m:
        raise Lost("64-bit CstIndex definition not found")
    out.append("#[derive(Debug, Copy, Clone)]\npub struct CstIndex(pub [u8; 6]);\n")
    for own, tr, i_open, i_close in ix.impls:
        if tr == "From" and own in ("usize", "CstIndex"):
            j = i_open
            while ix.st[j].t != "impl":
                j -= 1
            out.append(ix.src[ix.st[j].s:ix.st[i_close].e] + "\n")
    if len(out) != 3:
        raise Lost("CstIndex conversions not found")
    out.append("pub struct CstData { pub spans: Vec<Span>, pub nodes: Vec<Node> }\npub struct Cst { pub data: CstData }\n"
               "pub struct Parser { pub tokens: Vec<Token>, pub pos: usize, pub end_of_input: Token, pub max_offset: usize, pub cst: Cst }\n")
    out.append("impl Parser {\n" + "\n".join(fn_text(ix, k) for k in ("Parser::is_skipped", "Parser::peek", "Parser::peek_left", "Parser::span")) + "\n}\n")
    out.append("impl CstData {\n" + fn_text(ix, "CstData::span") + "\n}\n")
    return "".join(out)


def run(gen, timeout=900):
    d = os.path.join(VERIF, "kani")
    res = {"harnesses": {}, "status": "ok"}
    try:
        open(os.path.join(d, "src", "extracted.rs"), "w").write(extract(gen))
    except Lost as e:
        return {"status": "lost_anchor", "detail": str(e), "harnesses": {}}
    env = dict(os.environ, CARGO_NET_OFFLINE="true", CARGO_TARGET_DIR=os.path.join(VERIF, ".cache", "kani_target"))
    for h, kind in HARNESSES:
        t0 = time.time()
        try:
            r = subprocess.run(["cargo", "kani", "--harness", h], cwd=d, env=env, stdout=subprocess.PIPE, stderr=subprocess.STDOUT, text=True, timeout=timeout)
            out = r.stdout
        except subprocess.TimeoutExpired:
            res["harnesses"][h] = {"kind": kind, "result": "timeout", "wall_s": timeout}
            continue
        ok = "VERIFICATION:- SUCCESSFUL" in out
        fail = "VERIFICATION:- FAILED" in out
        checks = re.search(r"\*\* (\d+) of (\d+) failed", out)
        res["harnesses"][h] = {"kind": kind, "result": "success" if ok else ("failed" if fail else "error"), "wall_s": round(time.time() - t0, 1),
                               "checks": int(checks.group(2)) if checks else None, "tail": "" if ok else out[-1500:]}
    return res


if __name__ == "__main__":
    print(json.dumps(run(open(sys.argv[1]).read()), indent=1))
