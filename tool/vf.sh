#!/bin/sh
# dev: verify one function of the g1 skeleton.  usage: vf.sh <fn> [extra verus args]
f="$1"; shift
cd /verif && python3 tool/dev.py .cache/w/g1/generated.rs .cache/w/g1/v.rs --skeleton-only --verify-root --verify-function "$f" --time "$@" 2>&1 | grep -vE "^\s*$|autoderive|derive\(Clone\)|^\s+\|\s*$|verus-build|Version:|Profile:|Platform:|Toolchain:|rust-time|init-and|trait-conf|compile-time|vir-time|hir-time|import-time|rust-to-vir|unaccounted|verify-crate|air-time|smt-init|total-time|verification-time|total verify-time|total smt-time|machine-readable|990 \||= help|\^\^\^\^\^$"
