"""Merge side-car contracts (contracts/*.vspec) into extracted text.

Side-car format (line oriented):

    @@ fn <Key> [#n]            start of a block for function <Key> (n-th of same key)
    @ret <name>                 name the return value:  -> T   becomes  -> (name: T)
    @spec                       lines inserted between signature and body `{`
    @loop <k>                   lines inserted between the k-th loop header and its `{`  (k from 1)
    @loop_iter <k> <name>       ghost name for the iterator of the k-th loop (a `for`):  for x in <name>: range
    @before_loop <k>            statements inserted before the k-th loop
    @after <text>               statements inserted after the statement that contains <text>
                                (whitespace-insensitive, must be unique in the fn)
    @before <text>              same, before that statement
    @ins_before <text>          inserted right before the unique token sequence <text> (no statement logic)
    @ins_after <text>           inserted right after it
    @body_start                 statements inserted right after the body `{`
    @end                        statements inserted before the tail expression (value fns) or
                                before the closing `}` (unit fns)
    @attr                       attribute lines put in front of the fn
    @@ item                     free item text appended after the impl that ... (not used)

A missing function, loop or text anchor raises Lost (exit 2: undecided).
Only ghost/spec text may appear in a side-car; mergeing never deletes or
reorders executable tokens (E7).
"""
import re
from rsx import Index, Edits
from extract import Lost


def _macro_args(text, i):
    """text[i] == '(' -> (list of top-level comma separated args, index after ')')"""
    depth = 0
    args, cur = [], []
    j = i
    while True:
        c = text[j]
        if c in "([{":
            depth += 1
            if depth > 1:
                cur.append(c)
        elif c in ")]}":
            depth -= 1
            if depth == 0:
                args.append("".join(cur).strip())
                return args, j + 1
            cur.append(c)
        elif c == "," and depth == 1:
            args.append("".join(cur).strip())
            cur = []
        else:
            cur.append(c)
        j += 1


def macro_clauses(name, args):
    """-> list of (clause expression, comment with property tags)"""
    if name == "WF":
        p = args[0]
        return [("%s.cwf()" % p, "[C03] cursor: pos in range, current is the token at pos"),
                ("%s.twf()" % p, "[C01,C02] tree builder state: laminar, leaves are the consumed tokens in order"),
                ("%s.ewf()" % p, "[C06] error state: diagnostic positions strictly increasing")]
    q, p = args[0], args[1]
    cl = [("%s.cwf()" % q, "[C03]"), ("%s.twf()" % q, "[C01,C02]"), ("%s.ewf()" % q, "[C06]"),
          ("%s.same_input(%s)" % (q, p), "[C01] the input is never modified"),
          ("%s.pos >= %s.pos" % (q, p), "[C03] the cursor never moves backwards"),
          ("%s.nlen() >= %s.nlen()" % (q, p), "[C01,C08] nothing is removed from the tree")]
    if name == "STEP":
        cl.append(("(forall|k: int| #![trigger %s.mk(k)] #![trigger %s.mk(k)] %s.mk(k) ==> %s.mk(k))" % (p, q, p, q), "[C01,C02] sibling boundaries stay valid"))
    else:
        cl.append(("(forall|k: int| #![trigger %s.mk(k)] #![trigger %s.mk(k)] %s.mk(k) && k <= %s ==> %s.mk(k))" % (p, q, p, args[2], q), "[C01,C02] sibling boundaries stay valid"))
    cl.append(("%s.dpre(%s)" % (q, p), "[C06,C08] diagnostics already reported stay as they are"))
    if name == "STEP":
        cl.append(("%s.rstack() == %s.rstack()" % (q, p), "[C02] every node opened is closed again"))
    return cl


def expand_macros(text, indent="            "):
    """Clause macros: one contract clause per line, each tagged with the properties it carries, so
    that a failed obligation names its property.
       WF!(p)            p.cwf(), p.twf(), p.ewf()
       STEP!(q, p)       what every parsing step guarantees (q = post state, p = pre state)
       STEPB!(q, p, b)   the same with boundary marks preserved only up to b"""
    out = []
    i = 0
    pat = re.compile(r"\b(WF|STEPB|STEP)!\(")
    while True:
        m = pat.search(text, i)
        if not m:
            out.append(text[i:])
            break
        out.append(text[i:m.start()])
        args, j = _macro_args(text, m.end() - 1)
        cl = macro_clauses(m.group(1), args)
        mm = re.match(r"[ \t]*,", text[j:])
        comma_after = bool(mm)
        if mm:
            j += mm.end()
        lines = []
        for k, (e, c) in enumerate(cl):
            last = k == len(cl) - 1
            lines.append("%s%s   // %s" % (e, "," if (not last or comma_after) else "", c))
        out.append(("\n" + indent).join(lines) + "\n" + indent)
        i = j
    return "".join(out)


def parse_sidecar(text):
    blocks = []
    cur = None
    sec = None
    for raw in text.split("\n"):
        line = raw.rstrip("\n")
        if line.startswith("@@ struct "):
            m = re.match(r"@@ struct (\S+)\s*$", line)
            cur = {"struct": m.group(1), "key": None, "nth": None, "secs": []}
            blocks.append(cur)
            sec = {"kind": "fields", "arg": "", "lines": []}
            cur["secs"].append(sec)
            continue
        if line.startswith("@@ fn "):
            m = re.match(r"@@ fn (\S+)(?: #(\d+))?\s*$", line)
            cur = {"key": m.group(1), "nth": int(m.group(2)) if m.group(2) else None, "secs": []}
            blocks.append(cur)
            sec = None
            continue
        if line.startswith("@") and not line.startswith("@@") and cur is not None and re.match(r"@(ret|spec|loop|before_loop|after|before|body_start|end|attr|loop_end|loop_body|loop_iter|field_init|ins_before|ins_after)\b", line):
            m = re.match(r"@(\w+)\s*(.*)$", line)
            sec = {"kind": m.group(1), "arg": m.group(2).strip(), "lines": []}
            cur["secs"].append(sec)
            continue
        if line.startswith("##"):
            continue
        if sec is not None:
            sec["lines"].append(line)
    return blocks


def _norm(s):
    return re.sub(r"\s+", "", s)


def _stmt_bounds(ix, f, tok_i):
    """Given a token index inside fn body, return (start_tok, end_tok) of the
    innermost statement (ended by `;` at its bracket depth) containing it."""
    st = ix.st
    # walk forward to the terminating ';' at the same depth
    j = tok_i
    while True:
        t = st[j]
        if t.t in ("{", "(", "["):
            j = ix.pair[j] + 1
            continue
        if t.t == ";":
            break
        if t.t in ("}", ")", "]"):
            raise Lost("statement anchor is not inside a `;`-terminated statement")
        j += 1
    end = j
    # walk backward to previous ';' or '{' or '}' at same depth
    i = tok_i
    while True:
        t = st[i - 1]
        if t.t in ("}", ")", "]"):
            # could be end of a previous block statement or part of this expression
            k = ix.pair[i - 1]
            if t.t == "}" and (st[k - 1].t in (")", "else", "loop", "=>") or st[k - 1].k == "id"):
                # previous block statement (if/loop/match arm) -- stop here unless it is an operand
                # heuristics: a `}` directly before our statement start ends a block statement
                break
            i = k
            continue
        if t.t in (";", "{"):
            break
        i -= 1
    return i, end


def _find_text(ix, f, text):
    """Token index range of the unique occurrence of `text` (normalised) in f."""
    want = _norm(text)
    st = ix.st
    hits = []
    for i in range(f.i_body + 1, f.i_end):
        # try to match starting at token i
        acc = ""
        j = i
        while j < f.i_end and len(acc) < len(want):
            acc += st[j].t
            j += 1
        if acc == want:
            hits.append((i, j - 1))
    if len(hits) != 1:
        raise Lost("anchor text %r in %s: %d matches" % (text, f.key, len(hits)))
    return hits[0]


def tail_pos(ix, f):
    """Source offset before the tail expression of a value-returning fn, or
    before the closing brace for unit fns."""
    st = ix.st
    if not f.has_ret:
        return st[f.i_end].s
    # scan top-level statements
    i = f.i_body + 1
    last_start = i
    while i < f.i_end:
        t = st[i]
        if t.t in ("{", "(", "["):
            close = ix.pair[i]
            if t.t == "{" and close + 1 < f.i_end and st[close + 1].t not in (".", "?", ";", "else", ",") and st[close + 1].k != "p":
                # block statement ended
                i = close + 1
                last_start = i
                continue
            if t.t == "{" and close + 1 == f.i_end:
                # tail is a block expression starting at last_start
                return st[last_start].s
            i = close + 1
            continue
        if t.t == ";":
            i += 1
            last_start = i
            continue
        i += 1
    if last_start >= f.i_end:
        return st[f.i_end].s
    return st[last_start].s


EXCLUDE_GLOB = {"Parser::parse_rule"}


def merge(src, sidecar_text, report=None):
    ix = Index(src)
    ed = Edits(src)
    merge_into(ix, ed, sidecar_text, report)
    return ed.apply()


def merge_into(ix, ed, sidecar_text, report=None):
    blocks = parse_sidecar(expand_macros(sidecar_text))
    st = ix.st
    applied = []
    for b in blocks:
        if b.get("struct"):
            name = b["struct"]
            hits = [i for i in range(len(st) - 2) if st[i].t == "struct" and st[i + 1].t == name]
            if len(hits) != 1:
                raise Lost("contract anchor: struct %s: %d matches" % (name, len(hits)))
            j = hits[0] + 2
            while st[j].t != "{":
                if st[j].t == ";":
                    raise Lost("struct %s is not a braced struct" % name)
                j += 1
            close = ix.pair[j]
            txt = "\n".join(b["secs"][0]["lines"]).rstrip() + "\n"
            sep = "" if st[close - 1].t in (",", "{") else ","
            ed.insert(st[close].s, sep + "\n" + txt)
            applied.append("struct " + name)
            continue
        if b["key"].endswith("*"):
            pre = b["key"][:-1]
            fl = [g for g in ix.fns if g.parent is None and g.key.startswith(pre) and g.key not in EXCLUDE_GLOB]
            if not fl:
                raise Lost("contract anchor: no function matches %s" % b["key"])
        else:
            try:
                fl = [ix.fn(b["key"], b["nth"])]
            except (KeyError, IndexError) as e:
                raise Lost("contract anchor: function %s not found (%s)" % (b["key"], e))
        for f in fl:
            loops = None
            for sec in b["secs"]:
                kind, arg = sec["kind"], sec["arg"]
                body = "\n".join(sec["lines"]).rstrip() + "\n"
                if kind == "ret":
                    if not f.has_ret:
                        raise Lost("@ret on unit fn %s" % f.key)
                    # type tokens: from arrow+1 up to (where | body | ;)
                    j_end = f.i_where if f.i_where is not None else (f.i_body if f.i_body is not None else f.i_end)
                    ed.insert(st[f.i_arrow + 1].s, "(%s: " % arg)
                    ed.insert(st[j_end - 1].e, ")")
                elif kind == "spec":
                    if f.i_body is not None:
                        ed.insert(st[f.i_body].s, "\n" + body)
                    else:
                        ed.insert(st[f.i_end].s, "\n" + body)
                elif kind == "attr":
                    ed.insert(st[f.i_attr].s, body)
                elif kind in ("loop", "before_loop", "loop_end", "loop_body", "loop_iter"):
                    if loops is None:
                        loops = ix.loops_in(f)
                    k = int(arg.split()[0])
                    if k < 1 or k > len(loops):
                        raise Lost("%s has %d loops, contract names loop %d" % (f.key, len(loops), k))
                    i_kw, i_brace = loops[k - 1]
                    if kind == "loop_iter":
                        # ghost name for the iterator of a `for` loop:  for x in NAME: range
                        if st[i_kw].t != "for":
                            raise Lost("@loop_iter on a loop that is not a for loop in %s" % f.key)
                        j = i_kw + 1
                        while st[j].t != "in":
                            j += 1
                        ed.insert(st[j].e, " %s:" % arg.split()[1])
                    elif kind == "loop":
                        ed.insert(st[i_brace].s, "\n" + body)
                    elif kind == "before_loop":
                        ed.insert(st[i_kw].s, body)
                    elif kind == "loop_body":
                        ed.insert(st[i_brace].e, "\n" + body)
                    else:
                        ed.insert(st[ix.pair[i_brace]].s, body)
                elif kind in ("after", "before"):
                    a, z = _find_text(ix, f, arg)
                    s0, s1 = _stmt_bounds(ix, f, a)
                    if kind == "after":
                        ed.insert(st[s1].e, "\n" + body)
                    else:
                        ed.insert(st[s0].s, body)
                elif kind in ("ins_before", "ins_after"):
                    # raw insertion right before / after the unique token sequence <arg>
                    a, z = _find_text(ix, f, arg)
                    if kind == "ins_before":
                        ed.insert(st[a].s, body)
                    else:
                        ed.insert(st[z].e, "\n" + body)
                elif kind == "field_init":
                    # struct literal `<arg> {` inside the fn: add ghost field initialisers
                    hits = [i for i in range(f.i_body + 1, f.i_end - 1)
                            if st[i].t == arg and st[i + 1].t == "{" and st[i - 1].t not in ("struct", "impl", "for")]
                    if len(hits) != 1:
                        raise Lost("struct literal %s in %s: %d matches" % (arg, f.key, len(hits)))
                    close = ix.pair[hits[0] + 1]
                    sep = "" if st[close - 1].t in (",", "{") else ","
                    ed.insert(st[close].s, sep + " " + body)
                elif kind == "body_start":
                    ed.insert(st[f.i_body].e, "\n" + body)
                elif kind == "end":
                    ed.insert(tail_pos(ix, f), body)
                else:
                    raise Lost("unknown side-car section @" + kind)

            applied.append(f.key)
    if report is not None:
        report.setdefault("contracts_applied", []).extend(applied)
