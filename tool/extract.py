"""Extraction rules E1-E9 (DESIGN.md section 1): turn an emitted generated.rs into
text that Verus' front end accepts, without touching executable statements
except for the two identities E5 and E9.

Every rule that cannot find what it expects raises Lost (-> exit 2, undecided).
"""
import re
from rsx import Index, Edits, LexError


class Lost(Exception):
    """An anchor the extractor needs is missing or ambiguous."""


def _cut_item(src, ix, pred, what, required=True):
    """Remove impl blocks selected by pred(owner, trait)."""
    ed = Edits(src)
    n = 0
    for own, tr, i_open, i_close in ix.impls:
        if pred(own, tr):
            # walk back to `impl`
            j = i_open
            while ix.st[j].t != "impl":
                j -= 1
            ed.replace(ix.st[j].s, ix.st[i_close].e, "")
            n += 1
    if required and n == 0:
        raise Lost("E1: " + what + " not found")
    return ed.apply(), n


def e1_strip_fmt(src, report):
    ix = Index(src)
    src, n = _cut_item(src, ix, lambda o, t: t in ("Display", "Debug"), "fmt impls")
    report["E1_removed_fmt_impls"] = n
    # Debug in derive lists
    def fix(m):
        items = [x.strip() for x in m.group(1).split(",") if x.strip() and x.strip() != "Debug"]
        return "#[derive(%s)]" % ", ".join(items) if items else ""
    src, k = re.subn(r"#\[derive\(([^)]*)\)\]", fix, src)
    report["E1_derive_lists_rewritten"] = k
    # derive(Default) on CstChildren: the ghost fields added by the contracts have no Default
    src, k2 = re.subn(r"#\[derive\(Default\)\](\s*(?:pub\s+)?struct\s+CstChildren\b)", r"\1", src)
    if k2 != 1:
        raise Lost("E1: `#[derive(Default)] struct CstChildren` not found")
    report["E1_removed_derive_default"] = ["CstChildren"]
    return src


EXTERNAL_BODY = [
    # (key, which, rule)  which: index among same-key fns or None
    ("usize::from", 0, "E2"),
    ("CstIndex::from", 0, "E2"),
    ("CstData::span", None, "E3"),
    ("Parser::peek", None, "E3"),
    ("Parser::peek_left", None, "E3"),
    ("Parser::span", None, "E3"),
    ("Cst::match_token", None, "E3"),
    ("Cst::span_text", None, "E3"),
    ("Parser::new", None, "E3"),
    ("Parser::new_with_context", None, "E3"),
]


def e23_external_bodies(src, report):
    ix = Index(src)
    ed = Edits(src)
    done = []
    for key, which, rule in EXTERNAL_BODY:
        try:
            f = ix.fn(key, which)
        except (KeyError, IndexError):
            raise Lost("%s: function %s not found" % (rule, key))
        ed.insert(ix.st[f.i_attr].s, "#[verifier::external_body] ")
        done.append(key)
    report["external_body"] = done
    return ed.apply()


def e5_parse_rule(src, report):
    """Specialise parse_rule per entry point (beta-reduce the closure literal),
    `mut self` -> `self` + `let mut this = self`."""
    ix = Index(src)
    try:
        pr = ix.fn("Parser::parse_rule")
    except KeyError:
        raise Lost("E5: Parser::parse_rule not found")
    st = ix.st
    body = ix.text(pr.i_body, pr.i_end)
    # the single call `rule(&mut self, diags);`
    m = list(re.finditer(r"\brule\s*\(\s*&mut\s+self\s*,\s*diags\s*\)\s*;", body))
    if len(m) != 1:
        raise Lost("E5: call of the rule closure not found in parse_rule")
    params = ix.text(pr.i_lparen, pr.i_rparen)
    if not re.search(r"\(\s*mut\s+self\s*,\s*rule\s*:\s*RuleParser\s*,", params):
        raise Lost("E5: unexpected parse_rule parameter list")
    entries = []
    for f in ix.fns:
        if f.owner == "Parser" and f.parent is None and (f.name == "parse" or f.name.startswith("parse_")) and f.name != "parse_rule":
            entries.append(f)
    if not entries:
        raise Lost("E5: no parse entry point")
    ed = Edits(src)
    specialised = []
    for f in entries:
        btxt = ix.text(f.i_body, f.i_end)
        mm = re.search(r"self\s*\.\s*parse_rule\s*\(\s*\|\s*parser\s*,\s*diags\s*\|\s*parser\s*\.\s*(rule_\w+)\s*\(\s*diags\s*\)\s*,\s*diags\s*,\s*(Rule::\w+)\s*,?\s*\)", btxt)
        if not mm:
            raise Lost("E5: entry %s does not call parse_rule with a closure literal" % f.name)
        pre = btxt[1:mm.start()]           # statements before the call (parse_<part>: end_of_input = ..)
        post = btxt[mm.end():-1].strip()
        if post not in ("", ";"):
            raise Lost("E5: entry %s has code after parse_rule" % f.name)
        rule_fn, root = mm.group(1), mm.group(2)
        nb = body[1:m[0].start()] + "self.%s(diags);" % rule_fn + body[m[0].end():-1]
        nb = re.sub(r"\broot\b", root, nb)
        whole = pre + nb
        whole = re.sub(r"\bself\b", "this", whole)
        whole = whole.replace("Self::is_skipped", "Parser::is_skipped")
        newbody = "{\n        let mut this = self;\n" + whole + "}"
        ed.replace(st[f.i_body].s, st[f.i_end].e, newbody)
        # `mut self` in the entry's own parameter list
        ptxt = ix.text(f.i_lparen, f.i_rparen)
        ptxt2 = re.sub(r"\(\s*mut\s+self\b", "(self", ptxt)
        if ptxt2 != ptxt:
            ed.replace(st[f.i_lparen].s, st[f.i_rparen].e, ptxt2)
        specialised.append((f.name, rule_fn, root))
    # drop the generic parse_rule itself
    ed.replace(st[pr.i_attr].s, st[pr.i_end].e, "")
    report["E5_entries"] = specialised
    return ed.apply()


def e6_pub_fields(src, report):
    """Make the fields of the skeleton's structs visible to open spec fns."""
    ix = Index(src)
    st = ix.st
    ed = Edits(src)
    n = 0
    want = {"CstChildren", "CstData", "Cst", "MarkTruncation", "ParserState", "Parser"}
    seen = set()
    for i in range(len(st) - 2):
        if st[i].t == "struct" and st[i + 1].t in want:
            name = st[i + 1].t
            j = i + 2
            while st[j].t not in ("{", ";", "("):
                if st[j].t == "<":
                    j = ix._skip_generics(j)
                else:
                    j += 1
            if st[j].t != "{":
                continue
            seen.add(name)
            close = ix.pair[j]
            if st[i - 1].t != "pub":
                ed.insert(st[i].s, "pub ")
            k = j + 1
            while k < close:
                # skip attributes
                while st[k].t == "#":
                    k = ix.pair[k + 1] + 1
                if k >= close:
                    break
                if st[k].t != "pub":
                    ed.insert(st[k].s, "pub ")
                    n += 1
                # advance to the next top-level comma
                while k < close and st[k].t != ",":
                    if st[k].t == "<":
                        k = ix._skip_generics(k)
                    elif st[k].t in ("(", "[", "{"):
                        k = ix.pair[k] + 1
                    else:
                        k += 1
                k += 1
    if seen != want:
        raise Lost("E6: struct definitions not found: %s" % sorted(want - seen))
    src = ed.apply()
    for old, new in [("struct MarkOpened(usize);", "pub struct MarkOpened(pub usize);"),
                     ("struct MarkClosed(usize);", "pub struct MarkClosed(pub usize);"),
                     ("pub struct CstIndex([u8; 6]);", "pub struct CstIndex(pub [u8; 6]);")]:
        if old not in src:
            raise Lost("E6: `%s` not found" % old)
        src = src.replace(old, new, 1)
    report["E6_fields_made_pub"] = n
    return src


import os
E13_ENABLED = os.environ.get("VERIF_E13", "1") != "0"


class _NoE13(Exception):
    """The function does not have the shape E13 rewrites; it stays E8 (external, assumed contract)."""


def _labelled_blocks(ix, lo, hi):
    """token indices i with st[i] = 'ordered_choice, st[i+1] = ':', st[i+2] = '{' inside (lo, hi)."""
    st = ix.st
    return [i for i in range(lo, hi - 2) if st[i].k == "life" and st[i].t == "'ordered_choice" and st[i + 1].t == ":" and st[i + 2].t == "{"]


def e13_ordered_choice(src, report):
    """E13: an ordered choice is emitted as a labelled block whose alternatives are immediately
    invoked closures:

        'ordered_choice: { ..  if (|| { BODY; Some(()) })().is_some() { THEN } ..  LAST }

    Verus accepts neither labelled blocks nor closures capturing `&mut`.  The rewrite keeps every
    statement in place and changes only the control-flow carrier:

        'ordered_choice: loop { ..
            let mut alt_ok_K = false;
            'alt_K: loop { BODY'; alt_ok_K = true; break 'alt_K; }
            if alt_ok_K { THEN } ..  LAST
            break 'ordered_choice; }

    BODY' is BODY with the three ways a closure body returns `None` redirected to the end of the
    inlined body: `return None` -> `break 'alt_K`, `e?;` -> `if e.is_none() { break 'alt_K; }`,
    `try_expect!(..)` -> `try_expect_brk!(.., 'alt_K)` (a copy of the real macro text with
    `return None` replaced).  Functions with a nested ordered choice, or any other shape, are left
    alone and stay E8."""
    ix = Index(src)
    st = ix.st
    ed = Edits(src)
    done, skipped = [], {}
    K = [0]
    for f in ix.fns:
        if f.i_body is None or f.owner != "Parser" or f.parent is not None and f.name != "rec":
            continue
        if any(g.parent is f for g in ix.fns):
            lo_hi = [(g.i_attr, g.i_end) for g in ix.fns if g.parent is f]
        else:
            lo_hi = []
        blocks = [i for i in _labelled_blocks(ix, f.i_body, f.i_end) if not any(a <= i <= b for a, b in lo_hi)]
        if not blocks:
            continue
        ops = []
        try:
            for b in blocks:
                bo, bc = b + 2, ix.pair[b + 2]
                if any(b2 != b and bo < b2 < bc for b2 in _labelled_blocks(ix, f.i_body, f.i_end)):
                    raise _NoE13("nested ordered choice")
                if any(b2 < b and b < ix.pair[b2 + 2] for b2 in blocks):
                    raise _NoE13("nested ordered choice")
                ops.append(("ins", st[bo].s, "loop "))
                ops.append(("ins", st[bc].s, "    break 'ordered_choice;\n        "))
                # the alternatives: `if (|| {` .. `})().is_some() {`
                i = bo + 1
                nalt = 0
                while i < bc:
                    if st[i].t == "||" and st[i - 1].t == "(" and st[i - 2].t == "if" and st[i + 1].t == "{":
                        a = i - 2
                        co, cc = i + 1, ix.pair[i + 1]
                        tail = [t.t for t in st[cc + 1:cc + 8]]
                        if tail != [")", "(", ")", ".", "is_some", "(", ")"] or st[cc + 8].t != "{":
                            raise _NoE13("closure is not invoked as `})().is_some() {`")
                        if [t.t for t in st[cc - 5:cc]] != ["Some", "(", "(", ")", ")"]:
                            raise _NoE13("closure body does not end with Some(())")
                        K[0] += 1
                        k = K[0]
                        nalt += 1
                        lab = "'alt_%d" % k
                        ops.append(("rep", st[a].s, st[co].e, "let mut alt_ok_%d = false;\n                %s: loop {" % (k, lab)))
                        ops.append(("rep", st[cc - 5].s, st[cc - 1].e, "alt_ok_%d = true;\n                    break %s;" % (k, lab)))
                        ops.append(("rep", st[cc].s, st[cc + 7].e, "}\n                if alt_ok_%d" % k))
                        j = co + 1
                        while j < cc - 5:
                            t = st[j]
                            if (t.t == "||" and st[j + 1].t == "{" and st[j - 1].t == "(") or (t.k == "life" and st[j + 1].t == ":"):
                                raise _NoE13("closure or label inside an alternative")
                            if t.t == "return":
                                if st[j + 1].t != "None" or st[j + 2].t != ";":
                                    raise _NoE13("`return` other than `return None;` inside an alternative")
                                ops.append(("rep", st[j].s, st[j + 1].e, "break %s" % lab))
                                j += 3
                                continue
                            if t.t == "try_expect" and st[j + 1].t == "!" and st[j + 2].t == "(":
                                q = ix.pair[j + 2]
                                ops.append(("rep", st[j].s, st[j].e, "try_expect_brk"))
                                ops.append(("ins", st[q].s, ", %s" % lab))
                                j = q + 1
                                continue
                            if t.t == "?":
                                if st[j + 1].t != ";" or st[j - 1].t != ")":
                                    raise _NoE13("`?` not of the form `call(..)?;`")
                                p = ix.pair[j - 1]
                                if st[p - 1].k != "id":
                                    raise _NoE13("`?` on something that is not a call")
                                s0 = p - 1
                                if st[p - 2].t == "." and st[p - 3].t in ("self", "parser"):
                                    s0 = p - 3
                                if st[s0 - 1].t not in (";", "{", "}"):
                                    raise _NoE13("`?` inside a larger expression")
                                ops.append(("ins", st[s0].s, "if "))
                                ops.append(("rep", st[j].s, st[j + 1].e, ".is_none() { break %s; }" % lab))
                                j += 2
                                continue
                            j += 1
                        i = cc + 9
                        continue
                    i += 1
                if nalt == 0:
                    raise _NoE13("no alternative closure found")
        except _NoE13 as e:
            top = f if f.parent is None else f.parent
            skipped[top.key] = str(e)
            continue
        for op in ops:
            if op[0] == "ins":
                ed.insert(op[1], op[2])
            else:
                ed.replace(op[1], op[2], op[3])
        top = f if f.parent is None else f.parent
        if top.key not in done:
            done.append(top.key)
    report["E13_rewritten_fns"] = done
    report["E13_left_as_E8"] = skipped
    out = ed.apply()
    if done:
        # try_expect_brk!: the real try_expect! macro text with `return None` redirected to a label
        m = re.search(r"macro_rules!\s*try_expect\s*\{(?:[^{}]|\{(?:[^{}]|\{(?:[^{}]|\{[^{}]*\})*\})*\})*\}", out)
        if not m:
            raise Lost("E13: macro try_expect! not found")
        mt = m.group(0)
        if mt.count("return None;") != 1 or mt.count("$diags:expr) =>") != 1:
            raise Lost("E13: macro try_expect! has an unexpected shape")
        mt = mt.replace("macro_rules! try_expect", "macro_rules! try_expect_brk", 1)
        mt = mt.replace("$diags:expr) =>", "$diags:expr, $label:lifetime) =>", 1).replace("return None;", "break $label;", 1)
        out = out[:m.end()] + "\n#[allow(unused_macros)]\n" + mt + out[m.end():]
    return out


def e8_ordered_choice(src, report):
    """Functions (still) containing a labelled ordered-choice block are external."""
    ix = Index(src)
    ext = []
    for f in ix.fns:
        if f.i_body is None or f.owner != "Parser":
            continue
        if _labelled_blocks(ix, f.i_body, f.i_end + 1):
            top = f
            while top.parent is not None:
                top = top.parent
            if top.key not in ext:
                ext.append(top.key)
    report["E8_external_rule_fns"] = ext
    return src, ext


E9_RE = re.compile(r"((?:\|\s*)?(?:Token::\w+\s*\|\s*)+Token::\w+)(\s+)if\s+((?:self|parser)\s*\.\s*predicate_\w+\(\)|true)\s*=>")


def e9_or_pattern_guard(src, report):
    n = [0]

    def rep(m):
        pats = m.group(1).strip()
        if pats.startswith("|"):
            pats = pats[1:].strip()
        for alt in re.split(r"\s*\|\s*", pats):
            if not re.fullmatch(r"Token::\w+", alt):
                raise Lost("E9: alternative %r is not a unit variant path" % alt)
        n[0] += 1
        return "t_ if matches!(t_, %s) && %s =>" % (pats, m.group(3))
    src = E9_RE.sub(rep, src)
    report["E9_arms_rewritten"] = n[0]
    # any remaining or-pattern + guard would be rejected by Verus; detect early
    return src


def e10_derived_clone(src, report):
    """MarkTruncation's derived Clone gets an assumed specification (Verus gives a derived Clone
    that is not a Copy no specification)."""
    m = list(re.finditer(r"#\[derive\(Clone\)\]\s*(?=(?:pub\s+)?struct\s+MarkTruncation\b)", src))
    if len(m) != 1:
        raise Lost("E10: `#[derive(Clone)] struct MarkTruncation` not found")
    src = src[:m[0].end()] + "#[verifier::external_derive(Clone)]\n" + src[m[0].end():]
    report["E10_external_derive"] = ["MarkTruncation: Clone"]
    return src


def e12_structural(src, report):
    """`Rule` derives PartialEq; Verus equates a derived `==` with structural equality only for
    types that also derive its marker trait `Structural`."""
    m = list(re.finditer(r"#\[derive\(([^)]*)\)\](\s*#\[[^\]]*\])*\s*pub\s+enum\s+Rule\b", src))
    if len(m) != 1 or "PartialEq" not in m[0].group(1):
        raise Lost("E12: `#[derive(.., PartialEq, ..)] pub enum Rule` not found")
    a, b = m[0].span(1)
    src = src[:b] + ", Structural" + src[b:]
    report["E12_structural"] = ["Rule"]
    return src


def e11_children_next(src, report):
    """`impl Iterator for CstChildren<'_> { type Item = NodeRef; fn next(..) -> Option<Self::Item> }`
    is verified as an inherent method with the same body: a trait-impl method cannot carry the
    precondition (the iterator invariant) that its panic-freedom depends on."""
    m = list(re.finditer(r"impl\s+Iterator\s+for\s+CstChildren\s*<\s*'_\s*>\s*\{\s*type\s+Item\s*=\s*NodeRef\s*;\s*fn\s+next\s*\(\s*&mut\s+self\s*\)\s*->\s*Option\s*<\s*Self\s*::\s*Item\s*>", src))
    if len(m) != 1:
        raise Lost("E11: `impl Iterator for CstChildren` with `fn next` not found")
    src = src[:m[0].start()] + "impl CstChildren<'_> {\n    pub fn next(&mut self) -> Option<NodeRef>" + src[m[0].end():]
    report["E11_inherent_next"] = True
    return src


def extract(gen_src):
    """Returns (text, report)."""
    report = {}
    try:
        s = gen_src
        s = e1_strip_fmt(s, report)
        s = e5_parse_rule(s, report)
        s = e23_external_bodies(s, report)
        s = e6_pub_fields(s, report)
        s = e9_or_pattern_guard(s, report)
        s = e10_derived_clone(s, report)
        s = e12_structural(s, report)
        s = e11_children_next(s, report)
        if E13_ENABLED:
            s = e13_ordered_choice(s, report)
        s, ext = e8_ordered_choice(s, report)
    except LexError as e:
        raise Lost("lexing emitted text failed: %s" % e)
    return s, report
