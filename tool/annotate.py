"""Uniform annotator for layer G (emitted rule functions).  DESIGN.md section 2.4.

It knows no grammar.  For every `fn rule_X`, every nested `fn rec` and every `loop` it emits
the same contract templates.  Two kinds of *hints* are computed from the emitted text by a small
abstract interpretation (per token of the alphabet: does this statement surely consume / surely
leave the cursor alone?):

  P_X, N_X   tokens on which rule X surely makes progress / surely does not move the cursor
  rank_X     position of X in the graph of calls that may happen without progress

Hints are never trusted: every one of them ends up in an `ensures`, a loop `ensures` or a
`decreases` clause that Verus checks against the real body.  A wrong hint can only make the
verification fail, never succeed.
"""
import re
from rsx import Index, Edits
from extract import Lost


# ----------------------------------------------------------------------------------------------
# statement trees of emitted function bodies
# ----------------------------------------------------------------------------------------------
class Node:
    def __init__(self, kind, **kw):
        self.kind = kind
        self.__dict__.update(kw)

    def __repr__(self):
        return "<%s %s>" % (self.kind, {k: v for k, v in self.__dict__.items() if k not in ("kind", "body", "arms", "then", "els")})


class BodyParser:
    """Parses the statement shapes the generator emits (rust.rs).  Anything it does not
    recognise becomes an `other` statement (cursor effect unknown)."""

    def __init__(self, ix, fn):
        self.ix = ix
        self.st = ix.st
        self.fn = fn
        self.nested = [(g.i_attr, g.i_end) for g in ix.fns if g.parent is fn]

    def text(self, i, j):
        return self.ix.text(i, j)

    def parse_fn(self):
        return self.block(self.fn.i_body)

    def block(self, i_open):
        """i_open: token index of `{`.  Returns list of statements."""
        close = self.ix.pair[i_open]
        i = i_open + 1
        out = []
        while i < close:
            nd, i = self.stmt(i, close)
            if nd is not None:
                out.append(nd)
        # E13: `let mut alt_ok_K = false; 'alt_K: loop { CORE; alt_ok_K = true; break 'alt_K; } if alt_ok_K { OK }`
        # is one inlined alternative
        grouped = []
        i = 0
        while i < len(out):
            a = out[i]
            m = re.match(r"let\s+mut\s+(alt_ok_\d+)\s*=\s*false", a.text) if a.kind in ("pure", "assign") else None
            if m and i + 2 < len(out) and out[i + 1].kind == "altloop" and out[i + 2].kind == "if" \
                    and out[i + 2].cond.strip() == m.group(1) and out[i + 2].els is None:
                lp = out[i + 1]
                core = lp.body
                if len(core) >= 2 and core[-1].kind == "break" and getattr(core[-1], "label", None) == lp.label \
                        and core[-2].kind in ("pure", "assign") and re.match(r"%s\s*=\s*true" % m.group(1), core[-2].text):
                    grouped.append(Node("alt", flag=m.group(1), label=lp.label, loop=lp, core=core[:-2], ok=out[i + 2].then,
                                        ifn=out[i + 2], i0=a.i0))
                    i += 3
                    continue
            grouped.append(a)
            i += 1
        return grouped

    def _end_of_simple(self, i, close):
        """index of the terminating `;` of a simple statement starting at i, or close."""
        st = self.st
        j = i
        while j < close:
            t = st[j].t
            if t in ("{", "(", "["):
                j = self.ix.pair[j] + 1
                continue
            if t == ";":
                return j
            j += 1
        return close

    def stmt(self, i, close):
        st = self.st
        t = st[i]
        # nested fn item
        for a, b in self.nested:
            if a <= i <= b:
                return None, b + 1
        if t.t == ";":
            return None, i + 1
        if t.k == "life" and st[i + 1].t == ":" and st[i + 2].t == "{":
            # labelled block ('ordered_choice) -- only in external functions
            return Node("other", i0=i, i1=self.ix.pair[i + 2], text="labelled block"), self.ix.pair[i + 2] + 1
        if t.k == "life" and st[i + 1].t == ":" and st[i + 2].t == "loop" and st[i + 3].t == "{":
            # E13: pseudo-loops that carry the control flow of an ordered choice ('ordered_choice) and
            # of one inlined alternative ('alt_K); their bodies run at most once
            j = self.ix.pair[i + 3]
            body = self.block(i + 3)
            kind = "oc" if t.t == "'ordered_choice" else "altloop"
            return Node(kind, label=t.t, i_lbl=i, i_kw=i + 2, i_brace=i + 3, i_end=j, body=body), j + 1
        if t.t == "#" and st[i + 1].t == "[":
            return None, self.ix.pair[i + 1] + 1
        if t.t == "loop" and st[i + 1].t == "{":
            j = self.ix.pair[i + 1]
            return Node("loop", i_kw=i, i_brace=i + 1, body=self.block(i + 1)), j + 1
        if t.t == "match":
            j = i + 1
            while st[j].t != "{":
                j = self.ix.pair[j] + 1 if st[j].t in ("(", "[") else j + 1
            scrut = self.text(i + 1, j - 1)
            m = re.fullmatch(r"(self|parser)\s*\.\s*current", scrut)
            arms = self.arms(j)
            e = self.ix.pair[j]
            nxt = e + 1
            return Node("match", recv=m.group(1) if m else None, scrut=scrut, arms=arms, i0=i, i1=e), nxt
        if t.t == "if":
            j = i + 1
            while st[j].t != "{":
                j = self.ix.pair[j] + 1 if st[j].t in ("(", "[") else j + 1
            cond = self.text(i + 1, j - 1)
            then = self.block(j)
            e = self.ix.pair[j]
            els = None
            nxt = e + 1
            mt = re.fullmatch(r"(?:(self|parser)\s*\.\s*(rule_\w+)|(rec))\s*\((.*)\)\s*\.\s*is_none\s*\(\s*\)", cond.strip(), re.S)
            if mt and len(then) == 1 and then[0].kind == "break" and then[0].label:
                # E13: `e?;` inside an inlined alternative
                if mt.group(3):
                    args = [a.strip() for a in mt.group(4).split(",")]
                    call = Node("rec", args=args, recv=args[0], i0=i, i1=e, text=cond)
                else:
                    call = Node("call", var=None, recv=mt.group(1), method=mt.group(2), args=mt.group(4), i0=i, i1=e, text=cond)
                return Node("trycall", call=call, label=then[0].label, i0=i, i1=e), nxt
            if nxt < close and st[nxt].t == "else":
                if st[nxt + 1].t == "{":
                    els = self.block(nxt + 1)
                    nxt = self.ix.pair[nxt + 1] + 1
                else:
                    # else if ...
                    nd, nxt = self.stmt(nxt + 1, close)
                    els = [nd]
            return Node("if", cond=cond, then=then, els=els, i0=i, i1=nxt - 1), nxt
        if t.t in ("break", "continue", "return"):
            e = self._end_of_simple(i, close)
            label = st[i + 1].t if (t.t == "break" and st[i + 1].k == "life") else None
            return Node(t.t, i0=i, label=label, text=self.text(i, min(e, close - 1))), e + 1
        if t.t in ("expect", "try_expect", "try_expect_brk") and st[i + 1].t == "!":
            p = i + 2
            q = self.ix.pair[p]
            tok = st[p + 1].t
            # last macro args: receiver, diags [, label]
            args = self.text(p + 1, q - 1)
            m = re.search(r",\s*(self|parser)\s*,\s*diags\s*(?:,\s*('\w+)\s*)?$", args)
            e = self._end_of_simple(q, close)
            return Node("expect", tok=tok, recv=m.group(1) if m else None, try_=(t.t != "expect"), label=(m.group(2) if m else None), i0=i), e + 1
        # simple statement up to `;`
        e = self._end_of_simple(i, close)
        txt = self.text(i, min(e, close - 1))
        nd = self.simple(txt, i, e)
        return nd, e + 1

    CALL_RE = re.compile(r"^(?:let\s+(?:mut\s+)?(\w+)\s*=\s*)?(?:(\w+)\s*=\s*)?(?:Some\s*\(\s*)?(self|parser)\s*\.\s*(\w+)\s*\((.*)\)\s*\)?\s*\??\s*;?$", re.S)
    REC_RE = re.compile(r"^rec\s*\((.*)\)\s*\??\s*;?$", re.S)

    def simple(self, txt, i, e):
        m = self.CALL_RE.match(txt)
        if m:
            return Node("call", var=m.group(1) or m.group(2), recv=m.group(3), method=m.group(4), args=m.group(5), i0=i, i1=e, text=txt)
        m = self.REC_RE.match(txt)
        if m:
            args = [a.strip() for a in m.group(1).split(",")]
            return Node("rec", args=args, recv=args[0], i0=i, i1=e, text=txt)
        m = re.match(r"^(?:let\s+(?:mut\s+)?)?(\w+)\s*=\s*(\w+)\s*;?$", txt)
        if m:
            return Node("assign", var=m.group(1), src=m.group(2), i0=i, text=txt)
        if re.match(r"^(self|parser)\s*\.\s*(error_since_advance|in_ordered_choice)\s*[&|]?=[^=]", txt):
            return Node("fieldwrite", i0=i, text=txt)
        if re.match(r"^let\s+\w+\s*=\s*(self|parser)\s*\.\s*in_ordered_choice\s*;?$", txt):
            return Node("pure", i0=i, text=txt)
        if re.match(r"^(let\s+(mut\s+)?\w+\s*=\s*[\w:]+\s*;?|\w+\s*=\s*[\w:]+\s*;?|diags\s*\.\s*push\s*\(\s*diag\s*\)\s*;?|Some\s*\(\s*\(\s*\)\s*\)|let\s+\w+\s*=\s*\w+\s*;)$", txt):
            return Node("pure", i0=i, text=txt)
        return Node("other", i0=i, text=txt)

    def arms(self, i_open):
        st = self.st
        close = self.ix.pair[i_open]
        i = i_open + 1
        arms = []
        while i < close:
            # pattern up to `=>` (depth 0)
            j = i
            while st[j].t != "=>":
                j = self.ix.pair[j] + 1 if st[j].t in ("(", "[", "{") else j + 1
            pat = self.text(i, j - 1)
            toks, wild, guard = self.pattern(pat)
            k = j + 1
            if st[k].t == "{":
                body = self.block(k)
                k = self.ix.pair[k] + 1
            else:
                # single expression arm: `break,`
                e = k
                while e < close and st[e].t != ",":
                    e = self.ix.pair[e] + 1 if st[e].t in ("(", "[", "{") else e + 1
                txt = self.text(k, e - 1)
                if txt.strip() == "break":
                    body = [Node("break", i0=k, text="break", expr=True)]
                else:
                    body = [Node("other", i0=k, text=txt)]
                k = e
            if k < close and st[k].t == ",":
                k += 1
            arms.append(Node("arm", toks=toks, wild=wild, guard=guard, body=body, pat=pat))
            i = k
        return arms

    def pattern(self, pat):
        """-> (set of token names or None, is_wildcard, guard or None)"""
        p = pat.strip()
        if p.startswith("|"):
            p = p[1:].strip()
        m = re.fullmatch(r"t_\s+if\s+matches!\s*\(\s*t_\s*,\s*((?:Token::\w+\s*\|?\s*)+)\)\s*&&\s*(.*)", p, re.S)
        if m:
            return set(re.findall(r"Token::(\w+)", m.group(1))), False, m.group(2).strip()
        guard = None
        m = re.match(r"^(.*?)\s+if\s+(.*)$", p, re.S)
        if m:
            p, guard = m.group(1).strip(), m.group(2).strip()
        if p == "_":
            return None, True, guard
        alts = [a.strip() for a in p.split("|")]
        names = set()
        for a in alts:
            mm = re.fullmatch(r"Token::(\w+)", a)
            if not mm:
                return None, True, guard or "?"      # unknown pattern: treat as guarded wildcard
            names.add(mm.group(1))
        return names, False, guard


# ----------------------------------------------------------------------------------------------
# per-token abstract interpretation
# ----------------------------------------------------------------------------------------------
CURSOR_NEUTRAL = {"open", "open_before", "close", "close_root", "mark", "error", "create_node", "active_error",
                  "get_state", "peek", "peek_left", "span"}


class Interp:
    """Abstract interpretation of emitted bodies.  A state is (prog, tok):
         prog  'N' no token consumed since the function was entered (tok = the entry token)
               'P' at least one token consumed
               'U' unknown
         tok   the current token if it is known, else None
    Results are memoised per (statement, state)."""

    FLOWS = ("next", "break", "continue", "return")

    def __init__(self, alphabet, fns, entries=(), eoi=("EOF",)):
        """fns: name -> body (list of stmts); names are 'rule_x' and 'rule_x::rec'.
        entries: functions called from outside (parse, parse_<part>, external functions)."""
        self.alphabet = list(alphabet)
        self.fns = fns
        self.ALL = set(alphabet)
        self.eoi = set(eoi)
        self.C = {f: (set(alphabet) if f in entries else set()) for f in fns}   # possible current tokens at entry
        self.P = {f: set() for f in fns}
        self.N = {f: set() for f in fns}
        self.Ccalls = {}
        self.edges = set()
        self.loop_entry = {}    # id(loop) -> [tokens entering without progress, entered with unknown progress?]
        self.loops = {}         # id(loop) -> {tok: set(exit states)}
        self.cur_fn = None
        self.record = False
        self.memo = {}
        self.ext = set()          # names of E8 (external) rule functions
        self.ext_entry = {}       # external fn -> tokens it is entered with at verified call sites
        self.saved = []           # E13: cursor states saved by get_state of the enclosing ordered choices
        self.altok = {}           # id(alt node) -> {tok: 'P'|'N'|'U'} progress of the successful exit

    # -- helpers
    def callee_outcome(self, callee, state):
        prog, tok = state
        if self.record and callee in self.fns:
            if tok is not None:
                self.Ccalls.setdefault(callee, set()).add(tok)
            else:
                self.Ccalls[callee] = set(self.ALL)
            if prog != "P":
                self.edges.add((self.cur_fn, callee))
        if callee in self.ext:
            # E8 function (unverified): ASSUMED to consume when it is entered on a token a verified
            # caller dispatches on; the set of such tokens becomes part of its assumed contract
            if tok is not None:
                if self.record:
                    self.ext_entry.setdefault(callee, set()).add(tok)
                return ("P", None)
            return ("P", None) if prog == "P" else ("U", None)
        if tok is not None:
            if tok in self.P.get(callee, ()):
                return ("P", None)
            if tok in self.N.get(callee, ()):
                return state
        if prog == "P":
            return ("P", None)
        return ("U", None)

    @staticmethod
    def merge(dst, src, skip=()):
        for fl, v in src.items():
            if fl not in skip:
                dst.setdefault(fl, set()).update(v)

    def seq(self, stmts, state):
        """Flows: next / break / continue / return, and 'brk:<label>' for labelled breaks (E13)."""
        res = {fl: set() for fl in self.FLOWS}
        states = {state}
        for s in stmts:
            nxt = set()
            for sx in states:
                r = self.stmt(s, sx)
                nxt |= r.get("next", set())
                self.merge(res, r, skip=("next",))
            states = nxt
            if not states:
                break
        res["next"] = states
        return res

    def stmt(self, s, state):
        key = (id(s), state, self.record, self.saved[-1] if self.saved else None)
        if key in self.memo:
            return self.memo[key]
        r = self.stmt1(s, state)
        self.memo[key] = r
        return r

    def stmt1(self, s, state):
        prog, tok = state
        k = s.kind
        if k == "expect":
            if tok is not None:
                r = {"next": {("P", None) if s.tok == tok else state}}
            elif prog == "P":
                r = {"next": {("P", None)}}
            else:
                r = {"next": {("P", None), ("U", None)}}
            if s.try_ and (tok is None or tok != s.tok):
                # the mismatch path of try_expect!: `return None` (flow "retnone": the contract of an
                # Option-returning rule promises progress only for `Some`) or a break out of an inlined alternative
                lab = getattr(s, "label", None)
                r["brk:" + lab if lab else "retnone"] = {state}
            return r
        if k == "trycall":
            r = dict(self.stmt1(s.call, state))
            r["brk:" + s.label] = {("P", None) if prog == "P" else ("U", None)}
            return r
        if k == "alt":
            out = {}
            r = self.seq(s.core, state)
            self.merge(out, r, skip=("next", "brk:" + s.label))
            nxt = set(r.get("brk:" + s.label, set()))
            for okst in r.get("next", set()):
                r2 = self.seq(s.ok, okst)
                self.merge(out, r2, skip=("next",))
                nxt |= r2.get("next", set())
            out["next"] = nxt
            return out
        if k == "oc":
            self.saved.append(state)
            try:
                r = self.seq(s.body, state)
            finally:
                self.saved.pop()
            out = {}
            self.merge(out, r, skip=("next", "brk:" + s.label))
            out["next"] = set(r.get("next", set())) | set(r.get("brk:" + s.label, set()))
            return out
        if k == "altloop":
            # an inlined alternative that was not grouped with its flag test: effect unknown
            return {"next": {("P", None) if prog == "P" else ("U", None)}}
        if k == "call":
            m = s.method
            if m == "set_state":
                # the cursor is back where get_state of the enclosing ordered choice saw it
                return {"next": {self.saved[-1] if self.saved else ("U", None)}}
            if m == "advance":
                return {"next": {("P", None)}}
            if m == "advance_with_error":
                # consumes a token unless the input is exhausted (then current is an end-of-input token)
                if tok is not None and tok not in self.eoi:
                    return {"next": {("P", None)}}
                if tok is not None:
                    return {"next": {("P", None), state}}
                return {"next": {("P", None), (prog if prog == "P" else "U", None)}}
            if m.startswith("rule_"):
                return {"next": {self.callee_outcome(m, state)}}
            if m in CURSOR_NEUTRAL or m.startswith(("create_node_", "action_", "predicate_", "assertion_", "delete_node_")):
                return {"next": {state}}
            return {"next": {("P", None) if prog == "P" else ("U", None)}}
        if k == "rec":
            return {"next": {self.callee_outcome(self.cur_fn.split("::")[0] + "::rec", state)}}
        if k in ("assign", "pure", "fieldwrite"):
            return {"next": {state}}
        if k in ("break", "continue", "return"):
            lab = getattr(s, "label", None)
            if k == "break" and lab:
                return {"brk:" + lab: {state}}
            if k == "return" and re.match(r"return\s+None\b", s.text):
                return {"retnone": {state}}
            return {k: {state}}
        if k == "if":
            mm = re.fullmatch(r"matches!\s*\(\s*(?:self|parser)\s*\.\s*current\s*,\s*((?:\|?\s*Token::\w+\s*)(?:\|\s*Token::\w+\s*)*)\)", s.cond.strip(), re.S)
            out = {}
            if mm and tok is not None:
                # the guard of an ordered-choice alternative: decided by the current token
                names = set(re.findall(r"Token::(\w+)", mm.group(1)))
                if tok in names:
                    return self.seq(s.then, state)
                return self.seq(s.els, state) if s.els is not None else {"next": {state}}
            r1 = self.seq(s.then, state)
            r2 = self.seq(s.els, state) if s.els is not None else {"next": {state}}
            self.merge(out, r1)
            self.merge(out, r2)
            return out
        if k == "match":
            out = {fl: set() for fl in self.FLOWS}
            if s.recv is None:
                for a in s.arms:
                    self.merge(out, self.seq(a.body, state))
                return out
            toks = [tok] if tok is not None else self.alphabet
            for t2 in toks:
                st2 = (prog, t2)
                for a in s.arms:
                    if not (a.wild or (t2 in a.toks)):
                        continue
                    self.merge(out, self.seq(a.body, st2))
                    if a.guard is None or a.guard == "true":
                        break
            return out
        if k == "loop":
            if self.record:
                e = self.loop_entry.setdefault(id(s), [set(), False])
                if prog == "N":
                    e[0].add(tok)
                elif prog == "U":
                    e[1] = True
            exits = set()
            out = {}
            seen = set()
            work = [state]
            while work:
                sx = work.pop()
                if sx in seen:
                    continue
                seen.add(sx)
                r = self.seq(s.body, sx)
                exits |= r.get("break", set())
                self.merge(out, r, skip=("next", "break", "continue"))     # return, labelled breaks
                for s2 in r.get("next", set()) | r.get("continue", set()):
                    work.append(("P", None) if s2[0] == "P" else ("U", None))
            out["next"] = exits
            out.setdefault("return", set())
            return out
        # other
        return {"next": {("P", None) if prog == "P" else ("U", None)}}

    def run(self):
        changed = True
        rounds = 0
        while changed:
            changed = False
            rounds += 1
            self.edges = set()
            self.Ccalls = {}
            self.loop_entry = {}
            self.memo = {}
            for f, body in self.fns.items():
                self.cur_fn = f
                P, N = set(), set()
                for t in self.alphabet:
                    self.record = t in self.C[f]
                    r = self.seq(body, ("N", t))
                    outs = r["next"] | r["return"]
                    if outs and all(o[0] == "P" for o in outs):
                        P.add(t)
                    elif outs == {("N", t)}:
                        N.add(t)
                self.record = False
                P |= self.P[f]
                N |= self.N[f]
                if P != self.P[f] or N != self.N[f]:
                    self.P[f], self.N[f] = P, N
                    changed = True
            for f, c in self.Ccalls.items():
                if not c <= self.C[f]:
                    self.C[f] |= c
                    changed = True
            if rounds > 100:
                break
        # per-loop exit behaviour, from a fresh "no progress yet" state for every token
        self.record = False
        self.memo = {}
        self.loops = {}

        def all_loops(stmts, acc):
            for s in stmts:
                if s.kind in ("loop", "oc"):
                    acc.append(s)
                    all_loops(s.body, acc)
                elif s.kind == "alt":
                    acc.append(s)
                    all_loops(s.core, acc)
                    all_loops(s.ok, acc)
                elif s.kind == "match":
                    for a in s.arms:
                        all_loops(a.body, acc)
                elif s.kind == "if":
                    all_loops(s.then, acc)
                    if s.els:
                        all_loops(s.els, acc)

        def classify(ex, t):
            if ex and all(o[0] == "P" for o in ex):
                return {"P"}
            if ex == {("N", t)}:
                return {"N"}
            return {"U"}
        for f, body in self.fns.items():
            self.cur_fn = f
            acc = []
            all_loops(body, acc)
            for lp in acc:
                d = {}
                for t in self.alphabet:
                    if lp.kind == "alt":
                        # progress of the successful exit of an inlined alternative
                        self.saved.append(("N", t))
                        try:
                            ex = self.seq(lp.core, ("N", t)).get("next", set())
                        finally:
                            self.saved.pop()
                    else:
                        ex = self.stmt(lp, ("N", t))["next"]
                    d[t] = classify(ex, t)
                if lp.kind == "alt":
                    self.altok[id(lp)] = d
                else:
                    self.loops[id(lp)] = d
        return rounds

    def ranks(self):
        """Longest-path rank in the graph of calls without guaranteed progress."""
        nodes = list(self.fns)
        adj = {n: set() for n in nodes}
        for a, b in self.edges:
            if a in adj and b in adj and a != b:
                adj[a].add(b)
        rank = {}
        state = {}

        def visit(n):
            if n in rank:
                return rank[n]
            if state.get(n) == 1:
                return 0       # cycle: Verus will report the unprovable decreases
            state[n] = 1
            r = 0
            for m in adj[n]:
                r = max(r, visit(m) + 1)
            state[n] = 2
            rank[n] = r
            return r
        for n in nodes:
            visit(n)
        return rank


# ----------------------------------------------------------------------------------------------
# text generation
# ----------------------------------------------------------------------------------------------
def tokset(expr, toks, alphabet):
    """Spec expression for `expr in toks`."""
    toks = sorted(toks)
    if not toks:
        return "false"
    if len(toks) == len(alphabet):
        return "true"
    if len(toks) * 2 > len(alphabet):
        rest = sorted(set(alphabet) - set(toks))
        return "!(" + " || ".join("%s == Token::%s" % (expr, t) for t in rest) + ")"
    return "(" + " || ".join("%s == Token::%s" % (expr, t) for t in toks) + ")"


def collect_vars(stmts, out):
    for s in stmts:
        if s.kind == "loop":
            collect_vars(s.body, out)
        elif s.kind == "match":
            for a in s.arms:
                collect_vars(a.body, out)
        elif s.kind == "if":
            collect_vars(s.then, out)
            if s.els:
                collect_vars(s.els, out)


def uses_after(ix, f, tok_index, name):
    """Is identifier `name` used textually at or after token index (within fn f)?"""
    st = ix.st
    for j in range(tok_index, f.i_end):
        if st[j].k == "id" and st[j].t == name:
            return True
    return False


class Emitter:
    def __init__(self, ix, ed, f, key, interp, alphabet, rank, report):
        self.ix, self.ed, self.f, self.key = ix, ed, f, key
        self.interp, self.alphabet, self.rank = interp, alphabet, rank
        self.report = report
        self.recv = "parser" if f.parent is not None else "self"
        self.nloop = 0
        self.nassert = 0
        self.c07 = None
        self.attempt = 0      # > 0 while walking the body of an inlined ordered-choice alternative
        self.alt_snap = []    # ghost snapshots taken at the entry of the enclosing inlined alternatives
        self.has_oc = "'ordered_choice" in ix.text(f.i_body, f.i_end)
        self.depth = {"lhs": 0}

    def walk(self, stmts, opened, closed):
        """opened: list of live MarkOpened variable names in opening order.
        closed: dict name -> number of this function's open nodes below the mark (live MarkClosed
        variables; copied per block, so shadowing `let`s stay local to their block)."""
        opened = list(opened)
        closed = dict(closed)
        for s in stmts:
            if s.kind == "call" and s.var:
                if s.method in ("open", "open_before"):
                    if s.var in opened:
                        opened.remove(s.var)
                    opened.append(s.var)
                elif s.method in ("mark", "close"):
                    below = [v for v in opened if not (s.method == "close" and re.match(r"\s*%s\s*," % re.escape(v), s.args))]
                    closed[s.var] = len(below)
            if s.kind == "assign" and s.src in closed:
                closed[s.var] = closed[s.src]
            if s.kind == "call" and s.method == "close":
                m = re.match(r"\s*(\w+)\s*,", s.args)
                if m and m.group(1) in opened:
                    opened.remove(m.group(1))
            if s.kind == "fieldwrite" and re.match(r"^(self|parser)\s*\.\s*in_ordered_choice\s*[&|]?=", s.text):
                # a direct write of the choice flag: the tree part of the state is untouched; name the
                # states so that facts about boundary marks carry over (quantifier instantiation hint)
                self.nassert += 1
                a = "w_%d" % self.nassert
                r = self.recv
                e = self.ix.st[s.i0].s
                self.ed.insert(e, "let ghost %s = *%s;\n            " % (a, r))
                j = s.i0
                while self.ix.st[j].t != ";":
                    j += 1
                self.ed.insert(self.ix.st[j].e, "\n            proof { reveal(Parser::twf); reveal(Parser::ewf); reveal(Parser::mk); assert(%s.twf() == %s.twf()); assert(%s.ewf() == %s.ewf()); assert(forall|k: int| #[trigger] %s.mk(k) ==> %s.mk(k)); assert(forall|k: int| #[trigger] %s.mk(k) ==> %s.mk(k)); }" % (r, a, r, a, a, r, r, a))
            if s.kind == "loop":
                self.emit_loop(s, opened, closed)
                self.walk(s.body, opened, closed)
            elif s.kind == "oc":
                self.emit_oc(s, opened, closed)
                self.walk(s.body, opened, closed)
            elif s.kind == "alt":
                self.emit_alt(s, opened, closed)
                self.attempt += 1
                self.alt_snap.append("a_" + s.label[1:])
                self.walk(s.core, opened, closed)
                self.alt_snap.pop()
                self.attempt -= 1
                self.walk(s.ok, opened, closed)
            elif s.kind == "match":
                for a in s.arms:
                    self.walk(a.body, opened, closed)
            elif s.kind == "if":
                if re.match(r"let\s+Some\s*\(\s*diag\s*\)\s*=\s*(self|parser)\s*\.\s*assertion_", s.cond):
                    # semantic assertion: the emitted code writes error_since_advance directly
                    self.nassert += 1
                    a = "a_%d" % self.nassert
                    r = self.recv
                    self.ed.insert(self.ix.st[s.i0].s, "let ghost %s = *%s;\n            " % (a, r))
                    self.ed.insert(self.ix.st[s.i1].e, "\n            proof { assert(%s.twf()); assert(%s.ewf()); assert(forall|k: int| #[trigger] %s.mk(k) ==> %s.mk(k)); }" % (r, r, a, r))
                self.walk(s.then, opened, closed)
                if s.els:
                    self.walk(s.els, opened, closed)
        return opened, closed

    def flag_clause(self):
        """What is known about in_ordered_choice outside an undoable attempt."""
        r = self.recv
        if self.f.has_ret:
            # a rule that is also used inside an ordered choice: the flag is only ever cleared (commit,
            # last alternative) -- a caller outside any attempt stays outside
            return "(!old(%s).in_ordered_choice ==> !%s.in_ordered_choice),   // [C08]" % (r, r)
        return "!%s.in_ordered_choice,   // [C08]" % r

    def facts(self, i_use, opened, closed, k, flag=True):
        """Clauses (relative to the function's entry state) that hold at the head of a construct and
        at its exits: step relation, shape of the open-node stack, live boundary marks, cursor."""
        ix, r = self.ix, self.recv
        o = "old(%s)" % r
        from merge import macro_clauses
        B = self.bound()
        inv = ["%s,   // %s" % ec for ec in macro_clauses("STEPB", [r, o, B])]
        e = "%s.rstack()" % r
        for v in reversed(opened):
            inv.append("%s.len() > 0 && %s.last() == %s.0 && %s <= %s.0,   // [C02] %s is the innermost open node here" % (e, e, v, B, v, v))
            e += ".drop_last()"
        inv.append("%s == %s.rstack(),   // [C02] below them the stack is the caller's" % (e, o))
        inv += ["%s.pos >= p_%d,   // [C03]" % (r, k), "(%s.pos == p_%d ==> %s.current == c_%d),   // [C03]" % (r, k, r, k)]
        if flag and self.attempt == 0:
            inv.append(self.flag_clause())
        if self.f.has_ret:
            # a rule that runs inside undoable attempts: frame relative to its entry
            inv.append("%s.att(%s, %s),   // [C08] inside an undoable attempt nothing below the entry length is touched" % (r, o, B))
        if self.alt_snap:
            a = self.alt_snap[-1]
            inv.append("%s.att(&%s, %s.nlen()),   // [C08] frame of the alternative being tried" % (r, a, a))
        if self.f.parent is not None and "lhs" in closed and closed["lhs"] == 0:
            inv.append("lhs.0 == lhs0.0,   // [C02]")
        for v in closed:
            if uses_after(ix, self.f, i_use, v):
                drops = max(0, len(opened) - closed[v])
                stk = "%s.rstack()" % r + ".drop_last()" * drops
                inv.append("%s.mk(%s.0 as int) && top_of(%s) < %s.0 && %s <= %s.0,   // [C01,C02] %s is still a sibling boundary" % (r, v, stk, v, B, v, v))
        return inv

    def assigned_outer(self, i_lo, i_hi):
        """Locals declared outside the token range (i_lo, i_hi) and assigned inside it."""
        st = self.ix.st
        let, asg = set(), []
        for j in range(i_lo + 1, i_hi):
            if st[j].t == "let":
                q = j + 1
                if st[q].t == "mut":
                    q += 1
                if st[q].k == "id":
                    let.add(st[q].t)
            if st[j].k == "id" and st[j + 1].t == "=" and st[j - 1].t in (";", "{", "}") and st[j].t not in ("self", "parser"):
                if st[j].t not in asg:
                    asg.append(st[j].t)
        return [v for v in asg if v not in let]

    PSEUDO_ATTR = "#[verifier::loop_isolation(false)] #[verifier::allow_complex_invariants]\n            "

    def emit_oc(self, s, opened, closed):
        """E13 pseudo-loop that carries an ordered choice: runs once; entered in state o_k (the state
        get_state saves), left through `break 'ordered_choice` only."""
        ix, st, r = self.ix, self.ix.st, self.recv
        self.nloop += 1
        k = self.nloop
        ind = " " * 12
        pins = self.assigned_outer(s.i_brace, s.i_end)
        pre = "let ghost p_%d = %s.pos; let ghost c_%d = %s.current; let ghost o_%d = *%s;\n%s" % (k, r, k, r, k, r, ind)
        for v in pins:
            pre += "let ghost %s_%d = %s;\n%s" % (v, k, v, ind)
        self.ed.insert(st[s.i_lbl].s, pre + self.PSEUDO_ATTR)
        exc = ["*%s == o_%d,   // the body runs once" % (r, k)] + ["%s == %s_%d," % (v, v, k) for v in pins]
        # No `ensures`: Verus ignores the `ensures` of a loop with loop_isolation(false) (checked with a
        # deliberately false one); the state after the loop is the state at the `break` that left it,
        # which is exact here because the head state is pinned.  What the code after the choice needs
        # is therefore proved where it is needed (postconditions, preconditions of later calls).
        txt = "\n%s  invariant_except_break\n%s    %s\n" % (ind, ind, ("\n%s    " % ind).join(exc))
        txt += "%s  decreases 0int\n%s" % (ind, ind)
        self.ed.insert(st[s.i_brace].s, txt)
        self.ed.insert(st[s.i_brace].e, "\n%sbroadcast use lemma_span_ok, lemma_mk_bound;\n%sproof { reveal(Parser::twf); reveal(Parser::ewf); reveal(Parser::mk); }" % (ind, ind))
        # the saved state and the backtracking steps
        gs = [c for c in s.body if c.kind == "call" and c.method == "get_state" and c.var]
        if len(gs) != 1 or s.body[0] is not gs[0]:
            raise Lost("E13: ordered choice does not start with `let state = get_state(..)`")
        sv = gs[0].var
        self.ed.insert(st[gs[0].i1].e, "\n%slet ghost s_%d = *%s;" % (ind, k, r))
        nset = 0
        nassumed = 0
        for c in s.body:
            seq_ = [c] if c.kind == "call" else (c.then if c.kind == "if" else [])
            last_alt = None
            for d in seq_:
                if d.kind == "alt":
                    last_alt = d
                if d.kind == "call" and d.method == "set_state":
                    if not re.match(r"\s*&\s*%s\s*," % re.escape(sv), d.args):
                        raise Lost("E13: set_state with an unexpected argument")
                    nset += 1
                    g = "pre_%d_%d" % (k, nset)
                    if last_alt is not None:
                        # the frame of the alternative that was just abandoned, from the frames of its steps
                        fr = "lemma_frame_ok(%s, &a_%s, &%s, &s_%d);   // [C08] frame of the abandoned alternative: proved" % (r, last_alt.label[1:], sv, k)
                    else:
                        nassumed += 1
                        fr = "assume(%s.frame_ok(&%s));   // ASSUMED (E13 frame): the abandoned alternative left the tree below the saved mark alone" % (r, sv)
                    self.ed.insert(st[d.i0].s, "let ghost %s = *%s;\n%s    proof {\n%s        %s\n%s        lemma_restorable(%s, &%s, &s_%d);\n%s    }\n%s    " % (g, r, ind, ind, fr, ind, r, sv, k, ind, ind))
                    self.ed.insert(st[d.i1].e, "\n%s    proof { lemma_restored(%s, &%s, &%s, &s_%d); }" % (ind, r, g, sv, k))
            if last_alt is not None and c.kind == "if":
                # the rule's own local state (conditional elision, active rename, marks) shows no trace of the
                # abandoned alternative either: every local assigned inside it is back to its value at entry
                lp = last_alt.loop
                pins = [v for v in self.assigned_outer(lp.i_brace, lp.i_end) if v != last_alt.flag]
                if pins:
                    chk = " ".join("assert(%s == %s_%s);" % (v, v, last_alt.label[1:]) for v in pins)
                    self.ed.insert(st[c.i1].s, "    proof { %s }   // [C08] locals assigned by the abandoned alternative are restored\n%s" % (chk, ind))
        self.report.setdefault("assumed_frames", []).append({"fn": self.key, "set_state_calls": nset, "frame_assumed_at": nassumed})

    def emit_alt(self, s, opened, closed):
        """E13 inlined alternative: `'alt_K: loop { CORE; alt_ok_K = true; break 'alt_K; }`."""
        ix, st, r = self.ix, self.ix.st, self.recv
        self.nloop += 1
        k = self.nloop
        ind = " " * 16
        lp = s.loop
        pins = [v for v in self.assigned_outer(lp.i_brace, lp.i_end) if v != s.flag]
        a = "a_" + s.label[1:]
        pre = "let ghost p_%d = %s.pos; let ghost c_%d = %s.current; let ghost %s = *%s;\n%s" % (k, r, k, r, a, r, ind)
        for v in pins:
            pre += "let ghost %s_%s = %s;\n%s" % (v, s.label[1:], v, ind)
        self.ed.insert(st[s.i0].s, pre)
        self.ed.insert(st[lp.i_lbl].s, self.PSEUDO_ATTR)
        exc = ["*%s == %s,   // the body runs once" % (r, a), "!%s," % s.flag] + ["%s == %s_%s," % (v, v, s.label[1:]) for v in pins]
        # no `ensures` (ignored by Verus for non-isolated loops, see emit_oc): what holds when the
        # alternative is abandoned is asserted right after the loop instead, tagged, so that a failure
        # names the property
        txt = "\n%s  invariant_except_break\n%s    %s\n" % (ind, ind, ("\n%s    " % ind).join(exc))
        txt += "%s  decreases 0int\n%s" % (ind, ind)
        self.ed.insert(st[lp.i_brace].s, txt)
        self.ed.insert(st[lp.i_brace].e, "\n%sbroadcast use lemma_span_ok, lemma_mk_bound;\n%sproof { reveal(Parser::twf); reveal(Parser::ewf); reveal(Parser::mk); }" % (ind, ind))
        post = "\n%sproof {\n%s    if !%s {\n" % (ind, ind, s.flag)
        post += "%s        assert(%s.cwf() && %s.twf() && %s.ewf() && %s.same_input(&%s) && %s.pos >= %s.pos && %s.nlen() >= %s.nlen());   // [C08] an abandoned alternative leaves a well-formed parser on the same input\n" % (ind, r, r, r, r, a, r, a, r, a)
        post += "%s        assert(%s.in_ordered_choice);   // [C08] an alternative is only abandoned while the choice flag is set\n" % (ind, r)
        post += "%s    }\n%s}" % (ind, ind)
        self.ed.insert(st[lp.i_end].e, post)

    def emit_loop(self, s, opened, closed):
        ix, st, r = self.ix, self.ix.st, self.recv
        self.nloop += 1
        k = self.nloop
        o = "old(%s)" % r
        inv = self.facts(s.i_kw, opened, closed, k)
        ent = self.interp.loop_entry.get(id(s))
        if ent is not None and not ent[1] and len(ent[0]) < len(self.alphabet):
            # without progress since the function was entered, the loop is reached only on these tokens
            inv.append("(%s.pos == %s.pos ==> %s),   // [C03]" % (r, o, tokset("%s.current" % r, ent[0], self.alphabet)))
        exits = self.interp.loops.get(id(s), {})
        P = {t for t in self.alphabet if exits.get(t) == {"P"}}
        N = {t for t in self.alphabet if exits.get(t) == {"N"}}
        ens = []
        if self.c07 is not None and s is self.c07[0]["loop"]:
            ens.append(self.c07[1] % r + ",   // [C07] the operator loop is left only on a token that is no operator or binds looser than min_bp")
        if P:
            ens.append("%s ==> %s.pos > p_%d,   // [C03]" % (tokset("c_%d" % k, P, self.alphabet), r, k))
        if N:
            inv.append("%s ==> %s.pos == p_%d,   // [C03]" % (tokset("c_%d" % k, N, self.alphabet), r, k))
        ind = " " * 12
        pre = "let ghost p_%d = %s.pos; let ghost c_%d = %s.current;\n%s" % (k, r, k, r, ind)
        if self.attempt > 0:
            # a loop inside an inlined alternative may be left by `break 'alt_K`: Verus wants such a loop
            # to be non-isolated like the pseudo-loop around it (its invariants are unchanged)
            pre += self.PSEUDO_ATTR
        self.ed.insert(st[s.i_kw].s, pre)
        txt = "\n%s  invariant\n%s    %s\n" % (ind, ind, ("\n%s    " % ind).join(inv))
        if ens:
            txt += "%s  ensures\n%s    %s\n" % (ind, ind, ("\n%s    " % ind).join(ens))
        txt += "%s  decreases %s.rem()   // [C03]\n%s" % (ind, r, ind)
        self.ed.insert(st[s.i_brace].s, txt)
        self.ed.insert(st[s.i_brace].e, "\n%sbroadcast use lemma_span_ok, lemma_mk_bound;" % ind)

    def bound(self):
        """Marks up to this bound stay valid throughout the function."""
        if self.f.parent is not None:
            return "(lhs0.0 as int)"
        return "old(%s).nlen()" % self.recv

    def emit_spec(self, body, external=False):
        """One clause per line, each tagged with the properties it carries."""
        from merge import macro_clauses
        ix, st, f, r = self.ix, self.ix.st, self.f, self.recv
        o = "old(%s)" % r
        fin = "final(%s)" % r
        P = self.interp.P.get(self.key, set())
        N = self.interp.N.get(self.key, set())
        opt = f.has_ret      # rule reachable from an ordered choice: returns Option<()>, None = backtrack
        req = macro_clauses("WF", [o])
        C = self.interp.C.get(self.key, set())
        if C and len(C) < len(self.alphabet):
            req.append((tokset("%s.current" % o, C, self.alphabet), "[C03] the rule is only entered on these tokens (checked at every call site)"))
        if f.parent is not None:
            req.append(("%s.mk(lhs.0 as int)" % o, "[C01,C02] lhs is a sibling boundary"))
            req.append(("top_of(%s.rstack()) < lhs.0" % o, "[C02] lhs lies above the innermost open node"))
            ens = macro_clauses("STEPB", [fin, o, "lhs.0 as int"])
            ens.append(("%s.rstack() == %s.rstack()" % (fin, o), "[C02] every node opened is closed again"))
        else:
            ens = macro_clauses("STEP", [fin, o])
        if self.c07 is not None:
            ens.append((self.c07[1] % fin, "[C07] on return the next token is not an operator that binds at least as tight as min_bp"))
        if P:
            ens.append(("%s ==> %s.pos > %s.pos" % (tokset("%s.current" % o, P, self.alphabet), fin, o), "[C03] progress on these tokens (termination of callers' loops)"))
        if N:
            ens.append(("%s ==> %s.pos == %s.pos" % (tokset("%s.current" % o, N, self.alphabet), fin, o), "[C03] nothing is consumed on these tokens"))
        if opt:
            # backtracking is requested only while an ordered choice is being tried
            ens = [("(r is Some ==> %s)" % e, c) for (e, c) in ens]
            ens.append(("(r is None ==> %s.in_ordered_choice && %s.wf() && %s.same_input(%s) && %s.pos >= %s.pos)" % (o, fin, fin, o, fin, o), "[C08] backtracking is only requested while a choice is being tried"))
            ens.append(("(!%s.in_ordered_choice ==> !%s.in_ordered_choice)" % (o, fin), "[C08] outside an undoable attempt the flag is clear again on return"))
            ens.append(("(r is None ==> %s.in_ordered_choice)" % fin, "[C08] ... and the flag is still set when backtracking is requested"))
            ens.append(("%s.att(%s, %s)" % (fin, o, "lhs.0 as int" if f.parent is not None else "%s.nlen()" % o), "[C08] inside an undoable attempt nothing below the entry length is touched (frame)"))
        else:
            req.append(("!%s.in_ordered_choice" % o, "[C08] not inside an undoable attempt"))
            ens.append(("!%s.in_ordered_choice" % fin, "[C08]"))
        ind = "\n            "
        spec = "\n        requires" + ind + ind.join("%s,   // %s" % ec for ec in req)
        spec += "\n        ensures" + ind + ind.join("%s,   // %s" % ec for ec in ens) + "\n"
        if not external:
            spec += "        decreases %s.rem(), %dint   // [C03]\n    " % (o, self.rank.get(self.key, 0))
        return spec

    def name_ret(self):
        f, st = self.f, self.ix.st
        if f.has_ret:
            self.ed.insert(st[f.i_arrow + 1].s, "(r: ")
            self.ed.insert(st[f.i_body - 1].e, ")")


# ----------------------------------------------------------------------------------------------
# C07: binding discipline of emitted Pratt functions against a table read from the grammar text
# ----------------------------------------------------------------------------------------------
def c07_prepare(ix, f, body, rule, tabs, right_names, entry_body=None):
    """-> (info dict, None) or (None, reason).  info: name, arms [(loop arm, branch index, lbp, rbp,
    rassoc, tokens, if-node, rec-node or None)], prefix [(rec node, branch index, power)], nbranches."""
    import pratt
    sig = ix.text(f.i_lparen, f.i_rparen)
    tb = tabs.get(rule)
    if "min_bp" not in sig:
        # does the GRAMMAR TEXT need binding powers?  (not decided from the emitted code)
        if tb is not None:
            kinds = [b["kind"] for b in tb["branches"]]
            infix = [i for i, k in enumerate(kinds) if k == "leftright"]
            need = None
            if infix and len(kinds) >= 2:
                need = "an infix operator (branch %d) next to %d other recursive branch(es)" % (infix[0] + 1, len(kinds) - 1)
            elif infix:
                # a single infix branch: without a minimum binding power the right operand absorbs every
                # further operator, i.e. the branch groups to the right; the property wants that only for
                # `right` operator tokens (the tokens are read off the arms of the operator loop)
                loops = [s for s in body if s.kind == "loop"]
                ms = [s for s in loops[-1].body if s.kind == "match" and s.recv is not None] if loops else []
                if len(ms) != 1:
                    return None, "unexpected shape: operator loop without a single match on current"
                toks = set()
                for a in ms[0].arms:
                    if not a.wild:
                        toks |= a.toks
                if not toks or not toks <= right_names:
                    need = "a single infix branch whose operator tokens (%s) are not declared `right`: it has to group to the left" % ", ".join(sorted(toks - right_names))
            else:
                for i, k in enumerate(kinds):
                    later = [j for j in range(i + 1, len(kinds)) if kinds[j] in ("left", "leftright")]
                    if k == "right" and later:
                        need = "a prefix operator (branch %d) declared before the postfix/infix operator of branch %d, which it must not absorb" % (i + 1, later[0] + 1)
                        break
            if need:
                return {"missing_bp": need, "rule": rule}, None
        return None, "no binding powers are emitted for this rule (one recursive branch, or only left-recursive branches)"
    if tb is None:
        return None, "rule not found as a left-recursive rule in the grammar text"
    br = tb["branches"]
    n = len(br)
    loops = [s for s in body if s.kind == "loop"]
    if not loops or body[-1].kind not in ("loop", "pure") or (body[-1].kind == "pure" and (len(body) < 2 or body[-2].kind != "loop")):
        return None, "unexpected shape: the operator loop is not the last statement"
    lp = loops[-1]
    ms = [s for s in lp.body if s.kind == "match" and s.recv is not None]
    if len(ms) != 1:
        return None, "unexpected shape: operator loop without a single match on current"
    arms = [a for a in ms[0].arms if not a.wild]
    if any(a.guard not in (None,) for a in ms[0].arms):
        return None, "an operator arm is guarded by a predicate (the predicate decides whether the token is an operator)"
    left_idx = [i for i, b in enumerate(br) if b["kind"] in ("left", "leftright")]
    if len(left_idx) != len(arms):
        return None, "grammar text has %d left-recursive branches, emitted loop has %d operator arms" % (len(left_idx), len(arms))
    out_arms = []
    seen = set()
    for a, bi in zip(arms, left_idx):
        if a.toks & seen:
            return None, "an operator token starts two branches"
        seen |= a.toks
        rassoc = br[bi]["kind"] == "leftright" and bool(a.toks & right_names)
        ifs = [s for s in a.body if s.kind == "if" and re.fullmatch(r"\d+\s*\S{1,2}\s*min_bp", s.cond.strip())]
        recs = [s for s in a.body if s.kind == "rec"]
        if len(ifs) != 1 or a.body[0] is not ifs[0]:
            return None, "unexpected shape: operator arm does not start with the binding-power test"
        if br[bi]["kind"] == "leftright" and len(recs) != 1:
            return None, "unexpected shape: infix arm without exactly one recursive call"
        # the NUMBERS are the emitted ones (a renumbering that keeps every comparison is harmless); what the
        # grammar text dictates is the outcome of the comparisons between them (lemma_c07_table_X)
        lbp = int(re.match(r"\d+", ifs[0].cond.strip()).group(0))
        rbp = None
        if recs:
            lit = recs[0].args[2].strip() if len(recs[0].args) >= 4 else ""
            if not lit.isdigit():
                return None, "unexpected shape: the right operand is parsed without a literal binding power"
            rbp = int(lit)
        out_arms.append(dict(arm=a, branch=bi, lbp=lbp, rbp=rbp, rassoc=rassoc, toks=sorted(a.toks), ifn=ifs[0], rec=recs[0] if recs else None, kind=br[bi]["kind"]))
    # prefix branches: recursive calls outside the operator loop, in order
    pre = []

    def find_recs(stmts):
        for s in stmts:
            if s is lp:
                continue
            if s.kind == "rec":
                pre.append(s)
            elif s.kind == "loop":
                find_recs(s.body)
            elif s.kind == "match":
                for a in s.arms:
                    find_recs(a.body)
            elif s.kind == "if":
                find_recs(s.then)
                if s.els:
                    find_recs(s.els)
    find_recs(body)
    right_idx = [i for i, b in enumerate(br) if b["kind"] == "right"]
    if len(right_idx) != len(pre):
        return None, "grammar text has %d prefix branches, emitted code has %d recursive calls outside the operator loop" % (len(right_idx), len(pre))
    prefix = []
    for s, bi in zip(pre, right_idx):
        lit = s.args[2].strip() if len(s.args) >= 4 else ""
        if not lit.isdigit():
            return None, "unexpected shape: the operand of a prefix operator is parsed without a literal binding power"
        prefix.append((s, bi, int(lit)))
    # the minimum passed by the rule function itself (`rec(self, diags, E, lhs)`)
    entry = None
    if entry_body is not None:
        er = []

        def find_entry(stmts):
            for s in stmts:
                if s.kind == "rec":
                    er.append(s)
                elif s.kind == "loop":
                    find_entry(s.body)
                elif s.kind == "match":
                    for a in s.arms:
                        find_entry(a.body)
                elif s.kind == "if":
                    find_entry(s.then)
                    if s.els:
                        find_entry(s.els)
        find_entry(entry_body)
        if len(er) == 1 and len(er[0].args) >= 4 and er[0].args[2].strip().isdigit():
            entry = int(er[0].args[2].strip())
    # `if C < min_bp { break }`: an operator is absorbed iff C >= min_bp; with `<=` throughout, iff C > min_bp
    # (any other comparison is held against the `<` reading by the assertion behind the test)
    ops = set(re.fullmatch(r"\d+\s*(\S{1,2})\s*min_bp", a["ifn"].cond.strip()).group(1) for a in out_arms)
    strict = ops == {"<="}
    return dict(rule=rule, arms=out_arms, prefix=prefix, n=n, loop=lp, entry=entry, strict=strict), None


def c07_emit(ix, ed, f, info, alphabet):
    """Insert the [C07] assertions; returns (spec items text, ensures clause text for rec and its loop)."""
    st = ix.st
    rule = info["rule"]
    fn = "c07_lbp_%s" % rule
    strict = info.get("strict", False)
    ge = ">" if strict else ">="        # "binds at least as tight as the minimum", as the emitted test reads it
    lt = "<=" if strict else "<"
    cases = []
    for a in info["arms"]:
        for t in a["toks"]:
            cases.append("Token::%s => %dint," % (t, a["lbp"]))
    spec = "// [C07] left binding power of the operator tokens of rule `%s` (the emitted numbers; -1: no operator of this rule)\n" % rule
    spec += "#[verifier::opaque]\npub open spec fn %s(t: Token) -> int { match t { %s _ => -1int } }\n" % (fn, " ".join(cases))
    # the table, one implication per operator token (the function itself is opaque: a rule with a dozen
    # operator arms otherwise makes the solver case-split on the whole table at every recursive call)
    optoks = [(t, a["lbp"]) for a in info["arms"] for t in a["toks"]]
    imps = ["(t == Token::%s ==> %s(t) == %d)" % (t, fn, l) for t, l in optoks]
    imps.append("(%s ==> %s(t) == -1)" % (" && ".join("t != Token::%s" % t for t, _ in optoks) or "true", fn))
    spec += "pub proof fn lemma_c07_lbp_%s(t: Token)\n    ensures\n        %s\n{ reveal(%s); }\n" % (rule, "\n        ".join(i + ",   // [C07]" for i in imps), fn)

    def breaks(stmts, acc):
        for s in stmts:
            if s.kind == "break":
                acc.append(s)
            elif s.kind == "match":
                for a in s.arms:
                    breaks(a.body, acc)
            elif s.kind == "if":
                breaks(s.then, acc)
                if s.els:
                    breaks(s.els, acc)
    bl = []
    breaks(info["loop"].body, bl)
    for b in bl:
        call = "proof { lemma_c07_lbp_%s(parser.current); }" % rule
        if getattr(b, "expr", False):
            ed.replace(st[b.i0].s, st[b.i0].e, "{ %s break }" % call)
        else:
            ed.insert(st[b.i0].s, call + " ")
    # the table satisfies the property's inequalities
    # What the GRAMMAR TEXT dictates (branch order, `right` declarations) are the outcomes of the comparisons
    # between the emitted numbers; any numbering with these outcomes parses alike, any other does not.
    facts = []
    for a in info["arms"]:
        if a["kind"] != "leftright":
            continue
        for b in info["arms"]:
            want = "true" if (b["branch"] < a["branch"] or (b["branch"] == a["branch"] and a["rassoc"])) else "false"
            facts.append("((%d %s %d) == %s)" % (b["lbp"], ge, a["rbp"], want))
    for (s, bi, pw) in info["prefix"]:
        for b in info["arms"]:
            want = "true" if b["branch"] < bi else "false"
            facts.append("((%d %s %d) == %s)" % (b["lbp"], ge, pw, want))
    if info.get("entry") is not None:
        # the rule function itself starts with a minimum that every operator of the rule passes
        for b in info["arms"]:
            facts.append("(%d %s %d)" % (b["lbp"], ge, info["entry"]))
    spec += ("// [C07] an operator is absorbed into a right operand exactly if it comes from an earlier (tighter) branch, or from the\n"
             "// same branch when that branch is right-associative; a prefix operator's operand absorbs exactly the tighter operators;\n"
             "// at the top level every operator is absorbed\n"
             "pub proof fn lemma_c07_table_%s()\n    ensures %s,   // [C07]\n{ }\n" % (rule, " && ".join(facts) if facts else "true"))
    for a in info["arms"]:
        ed.insert(st[a["ifn"].i1].e, "\n                        assert(%s(parser.current) %s min_bp) by { lemma_c07_lbp_%s(parser.current); }   // [C07] only operators binding at least as tight as the caller's minimum are absorbed" % (fn, ge, rule))
    clause = "(%s(%%s.current) %s min_bp)" % (fn, lt)
    return spec, clause


def annotate(ix, ed, report, skeleton_only=False):
    alphabet = report["alphabet"]
    ext_keys = set(report.get("extraction", {}).get("E8_external_rule_fns", []))
    fns = {}
    fobj = {}
    for f in ix.fns:
        if f.owner != "Parser" or f.i_body is None:
            continue
        if f.parent is None and f.name.startswith("rule_"):
            key = f.name
        elif f.parent is not None and f.name == "rec" and f.parent.name.startswith("rule_") and f.parent.parent is None:
            key = f.parent.name + "::rec"
        else:
            continue
        top = f if f.parent is None else f.parent
        if top.key in ext_keys:
            if f.parent is None:
                fobj[key] = (f, None)
            continue
        body = BodyParser(ix, f).parse_fn()
        fns[key] = body
        fobj[key] = (f, body)
    entries = set(e[1] for e in report.get("extraction", {}).get("E5_entries", []))
    if ext_keys:
        # external (unverified) functions may call anything on any token
        entries = set(fns)
    it = Interp(alphabet, fns, entries, report.get("eoi", ["EOF"]))
    it.ext = set(k for k, (f_, b_) in fobj.items() if b_ is None)
    rounds = it.run()
    rank = it.ranks()
    st = ix.st
    rep = {"functions": {}, "fixpoint_rounds": rounds, "no_progress_edges": sorted("%s->%s" % e for e in it.edges), "external": sorted(ext_keys)}
    other = []
    tabs = None
    c07rep = {}
    c07_specs = []
    if report.get("grammar_text"):
        import pratt
        try:
            tabs = pratt.tables(report["grammar_text"])
        except Exception as e:
            tabs = None
            c07rep["_error"] = "%s: %s" % (type(e).__name__, e)
    for key, (f, body) in fobj.items():
        em = Emitter(ix, ed, f, key, it, alphabet, rank, rep)
        if body is None:
            # E8: external rule function with an assumed contract
            ed.insert(st[f.i_attr].s, "#[verifier::external] ")
            rep["functions"][key] = {"assumed": True}
            continue
        if f.parent is not None and tabs is not None and not skeleton_only:
            rule = key[len("rule_"):-len("::rec")]
            info, why = c07_prepare(ix, f, body, rule, tabs, tabs.get("_right", set()), fns.get("rule_" + rule))
            if info is None:
                c07rep[rule] = {"covered": False, "reason": why}
            elif "missing_bp" in info:
                # the grammar text needs a minimum binding power and the emitted function has none: an
                # obligation that cannot be discharged, placed in the function the property is about
                c07rep[rule] = {"covered": True, "branches": [], "prefix": [], "missing_binding_powers": info["missing_bp"]}
                ed.insert(st[f.i_body].e, "\n        assert(false);   // [C07] the grammar text has %s: that needs a minimum binding power in this function, none is emitted" % info["missing_bp"])
            else:
                sp, clause = c07_emit(ix, ed, f, info, alphabet)
                c07_specs.append(sp)
                em.c07 = (info, clause)
                c07rep[rule] = {"covered": True, "branches": [dict(branch=a["branch"], kind=a["kind"], tokens=a["toks"], lbp=a["lbp"], rbp=a["rbp"], right_assoc=a["rassoc"]) for a in info["arms"]],
                                "prefix": [dict(branch=bi, power=pw) for (_, bi, pw) in info["prefix"]]}
        spec = em.emit_spec(body)
        em.name_ret()
        ed.insert(st[f.i_body].s, spec)
        if skeleton_only:
            ed.insert(st[f.i_attr].s, "#[verifier::external_body] ")
            continue
        # body start: broadcast lemma for diagnostic spans; reveal where fields are written directly
        txt = ix.text(f.i_body, f.i_end)
        start = "\n        broadcast use lemma_span_ok, lemma_mk_bound;\n"
        if f.parent is not None:
            start += "        let ghost lhs0 = lhs;\n"
        if re.search(r"\.\s*(error_since_advance|in_ordered_choice)\s*[&|]?=[^=]", txt):
            start += "        proof { reveal(Parser::twf); reveal(Parser::ewf); reveal(Parser::mk); }\n"
        ed.insert(st[f.i_body].e, start)
        closed0 = {"lhs": 0} if f.parent is not None else {}
        em.walk(body, [], closed0)
        unk = []

        def find_other(stmts):
            for s in stmts:
                if s.kind in ("other", "altloop"):
                    unk.append(getattr(s, "text", s.kind)[:60])
                elif s.kind in ("loop", "oc"):
                    find_other(s.body)
                elif s.kind == "alt":
                    find_other(s.core)
                    find_other(s.ok)
                elif s.kind == "match":
                    for a in s.arms:
                        find_other(a.body)
                elif s.kind == "if":
                    find_other(s.then)
                    if s.els:
                        find_other(s.els)
        find_other(body)
        other.extend(unk)
        rep["functions"][key] = {"P": sorted(it.P[key]), "N": sorted(it.N[key]), "C": sorted(it.C[key]), "rank": rank.get(key, 0), "loops": em.nloop}
    rep["unrecognised_statements"] = other
    # calls from emitted rule functions to parser functions for which no contract exists (a new runtime
    # function): nothing can be concluded from a failed caller then -- the unit is UNDECIDED (needs contract)
    known = set(k.split("::", 1)[1] for k in report.get("contracts_applied", []) if k.startswith("Parser::"))
    meths = set()

    def calls(stmts):
        for s in stmts:
            if s.kind == "call":
                meths.add(s.method)
            elif s.kind == "trycall" and s.call.kind == "call":
                meths.add(s.call.method)
            elif s.kind in ("loop", "oc", "altloop"):
                calls(s.body)
            elif s.kind == "alt":
                calls(s.core)
                calls(s.ok)
            elif s.kind == "match":
                for a in s.arms:
                    calls(a.body)
            elif s.kind == "if":
                calls(s.then)
                if s.els:
                    calls(s.els)
    for key, (f, body) in fobj.items():
        if body is not None:
            calls(body)
    rep["uncontracted_calls"] = sorted(m for m in meths if m not in known and m != "create_diagnostic"
                                       and not m.startswith(("rule_", "create_node_", "delete_node_", "action_", "predicate_", "assertion_")))
    rep["c07"] = c07rep
    report["annotator"] = rep
    # assumed contracts of E8 functions
    ext_specs = []
    for key, (f, body) in fobj.items():
        if body is None:
            sig = "(p: &mut Parser<'a>, diags: &mut Vec<<Parser<'a> as ParserCallbacks<'a>>::Diagnostic>)"
            K = it.ext_entry.get(key, set())
            prog = tokset("old(p).current", K, alphabet) if K else "false"
            rep["functions"][key]["assumed_progress_on"] = sorted(K)
            if f.has_ret:
                ext_specs.append("pub assume_specification<'a> [Parser::<'a>::%s] %s -> (r: Option<()>)\n    requires old(p).wf(),\n    ensures (r is Some ==> final(p).step(old(p))), (r is None ==> old(p).in_ordered_choice && final(p).wf() && final(p).same_input(old(p)) && final(p).pos >= old(p).pos),\n        (!old(p).in_ordered_choice ==> !final(p).in_ordered_choice),\n        (r is Some && %s ==> final(p).pos > old(p).pos);\n" % (f.name, sig, prog))
            else:
                ext_specs.append("pub assume_specification<'a> [Parser::<'a>::%s] %s\n    requires old(p).wf(), !old(p).in_ordered_choice,\n    ensures final(p).step(old(p)), !final(p).in_ordered_choice,\n        (%s ==> final(p).pos > old(p).pos);\n" % (f.name, sig, prog))
    report["ext_specs"] = ext_specs + c07_specs
