#!/usr/bin/env python3
"""dev helper: build the Verus file for one generated.rs and run verus.
usage: dev.py <generated.rs> <out.rs> [--annotate] [verus args...]"""
import sys, os, subprocess, json, re
sys.path.insert(0, os.path.dirname(os.path.abspath(__file__)))
import assemble
from extract import Lost
gen, out = sys.argv[1], sys.argv[2]
rest = sys.argv[3:]
ann = None
if "--annotate" in rest:
    rest.remove("--annotate")
    import annotate
    ann = annotate.annotate
sc = [assemble.read(os.path.join(assemble.CONTRACTS, "skeleton.vspec"))]
rep = {}
try:
    txt = assemble.build(open(gen).read(), sc, annotate=ann, report=rep)
except Lost as e:
    print("LOST:", e); sys.exit(2)
if "--skeleton-only" in rest:
    rest.remove("--skeleton-only")
    txt = re.sub(r"(?m)^(\s*)fn (rule_\w+)(<|\()", r"\1#[verifier::external_body] fn \2\3", txt)
open(out, "w").write(txt)
r = subprocess.run(["verus", out, "--triggers-mode", "silent"] + rest)
sys.exit(r.returncode)
