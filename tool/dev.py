#!/usr/bin/env python3
"""dev helper: build the Verus file for one generated.rs and run verus.
usage: dev.py <generated.rs> <out.rs> [--skeleton-only] [--grammar file.llw] [verus args...]"""
import sys, os, subprocess, json, re
sys.path.insert(0, os.path.dirname(os.path.abspath(__file__)))
import assemble, annotate
from extract import Lost
gen, out = sys.argv[1], sys.argv[2]
rest = sys.argv[3:]
skel = "--skeleton-only" in rest
if skel:
    rest.remove("--skeleton-only")
rep = {}
if "--grammar" in rest:
    i = rest.index("--grammar")
    rep["grammar_text"] = open(rest[i + 1]).read()
    del rest[i:i + 2]
sc = [assemble.read(os.path.join(assemble.CONTRACTS, "skeleton.vspec"))]
try:
    txt = assemble.build(open(gen).read(), sc, annotate=lambda ix, ed, r: annotate.annotate(ix, ed, r, skeleton_only=skel), report=rep)
except Lost as e:
    print("LOST:", e); sys.exit(2)
open(out, "w").write(txt)
rep.pop("grammar_text", None)
json.dump(rep, open(out + ".report.json", "w"), indent=1, default=str)
r = subprocess.run(["verus", out, "--triggers-mode", "silent"] + rest)
sys.exit(r.returncode)
