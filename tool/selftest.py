"""Self-test (DESIGN 2.7): seeded property-breaking changes must each fail a named obligation.

For every entry of /verif/selftest/mutations.json a scratch copy of /repo (outside /repo and
/verif) gets one textual change; `./check all` runs against the copy (VERIF_REPO) and must print
a VIOLATION for at least one of the entry's expected properties.  A seeded change that still
verifies means the machinery, not lelwel, is at fault (exit 2).  The copy is removed afterwards.

usage: selftest.py [--only id[,id]] [--tier quick|thorough] [--keep]
"""
import json
import os
import re
import shutil
import subprocess
import sys
import tempfile
import time

HERE = os.path.dirname(os.path.abspath(__file__))
VERIF = os.path.dirname(HERE)


def copy_repo(dst):
    # the committed tree (HEAD), not the working tree: tool/try_seeds.sh may have a seed applied to
    # /repo at the same moment
    ar = subprocess.Popen(["git", "-C", "/repo", "archive", "HEAD"], stdout=subprocess.PIPE)
    subprocess.run(["tar", "-x", "-C", dst], stdin=ar.stdout, check=True)
    ar.stdout.close()
    if ar.wait() != 0:
        raise RuntimeError("git archive failed")


def apply(root, m):
    for ed in m["edits"]:
        p = os.path.join(root, ed["file"])
        s = open(p).read()
        n = s.count(ed["old"])
        if n != ed.get("count", 1):
            raise RuntimeError("%s: anchor occurs %d times in %s (expected %d)" % (m["id"], n, ed["file"], ed.get("count", 1)))
        s = s.replace(ed["old"], ed["new"])
        open(p, "w").write(s)


def main():
    args = sys.argv[1:]
    only = None
    tier = "quick"
    keep = "--keep" in args
    if "--only" in args:
        only = set(args[args.index("--only") + 1].split(","))
    if "--tier" in args:
        tier = args[args.index("--tier") + 1]
    muts = json.load(open(os.path.join(VERIF, "selftest", "mutations.json")))
    rows = []
    bad = 0
    for m in muts:
        if only and m["id"] not in only:
            continue
        root = tempfile.mkdtemp(prefix="lelwel_selftest_")
        t0 = time.time()
        try:
            copy_repo(root)
            apply(root, m)
            env = dict(os.environ, VERIF_REPO=root, VERIF_TIER=tier)
            r = subprocess.run([os.path.join(VERIF, "check"), "all", "--tier", tier], stdout=subprocess.PIPE, stderr=subprocess.PIPE, text=True, env=env)
            vio = sorted(set(re.findall(r"^VIOLATION property=(C\d+)", r.stdout, re.M)))
            und = len(re.findall(r"^UNDECIDED", r.stdout, re.M))
            exp = set(m["expect"])
            if exp:
                ok = bool(exp & set(vio))
            else:
                ok = not vio          # expected to stay undetected (documented limit) / harmless change
            rows.append((m["id"], ok, ",".join(vio) or "-", und, r.returncode, round(time.time() - t0), m["what"]))
            if not ok:
                bad += 1
                sys.stderr.write(r.stdout[-3000:] + "\n" + r.stderr[-2000:] + "\n")
        except Exception as e:
            rows.append((m["id"], False, "ERROR %s" % e, 0, -1, round(time.time() - t0), m["what"]))
            bad += 1
        finally:
            if not keep:
                shutil.rmtree(root, ignore_errors=True)
                tag = __import__("hashlib").sha256(os.path.realpath(root).encode()).hexdigest()[:10]
                shutil.rmtree(os.path.join(VERIF, ".cache", "work_" + tag), ignore_errors=True)
        print("%-22s %-5s violations=%-22s undecided=%-2d rc=%d %4ds  %s" % (rows[-1][0], "ok" if rows[-1][1] else "MISS", rows[-1][2], rows[-1][3], rows[-1][4], rows[-1][5], rows[-1][6]), flush=True)
    json.dump([dict(id=r[0], detected=r[1], violations=r[2], undecided=r[3], rc=r[4], seconds=r[5], what=r[6]) for r in rows],
              open(os.path.join(VERIF, "selftest", "last_result.json"), "w"), indent=1)
    return 2 if bad else 0


if __name__ == "__main__":
    sys.exit(main())
