#!/usr/bin/env python3
"""Writes seeded/<id>/meta.json for the round-2 seeded changes (d01..d16) from the descriptive table
below plus the outcome of the last `tool/try_seeds.sh quick` run (seeded/<id>/check_quick.out/.err)."""
import json
import os
import re
import sys

SEEDED = os.path.join(os.path.dirname(os.path.dirname(os.path.abspath(__file__))), "seeded")
ORIGIN = "written by an independent sub-agent that saw only the property text and its own scratch worktree of /repo (nothing from /verif)"
HOW = "tool/confirm_seed.sh in the scratch worktree: patch == worktree diff, cargo test --workspace --offline with the change, demo/run.sh with and without the change"
CONF = "patch_matches_diff=yes tests_passed=59 tests_failed=0 demo_with_change_rc=1 demo_without_change_rc=0"

T = {
 "d01": dict(prop="C01",
    change="Parser::init_skip rewritten as `while let Some(&token)`: a leading token skipped through the predicate_skip callback is stepped over but never pushed into the tree (src/skeleton/generated.rs)",
    needs="a parser that overrides predicate_skip and an input whose first token(s) the predicate skips; every later leaf then carries the span of an earlier token",
    caught="the installed Verus rejects the `Some(&token)` pattern of the rewritten function, so no unit that carries the skeleton is decided deductively (30 UNDECIDED lines); the bounded stand-in, which runs for a unit the verifier cannot ingest and drives predicate_skip in half of its runs, finds a one-token input whose tree has no leaf (C01) in the real emitted parser; reported with that failing input, labelled bounded"),
 "d02": dict(prop="C02",
    change="Parser::close no longer closes a pending error node before closing the rule node (src/skeleton/generated.rs)",
    needs="a rule whose body ends in a recovering construct (x*, x+, [x]) that swallowed junk just before the rule's close: the created callback announces a node with an unclosed error child, and the child can extend past the parent",
    caught="precondition of CstData::close (`error node closed`: the mark is the innermost open node) fails inside Parser::close in every unit that verifies the skeleton; the E8 unit o04 additionally fails natively (input `ac`: extent of child exceeds parent)"),
 "d03": dict(prop="C03",
    change="the fall-through of an ordered choice emits parser.error(..) instead of parser.advance_with_error(..) (src/backend/rust.rs, Regex::OrderedChoice)",
    needs="an ordered choice inside a loop whose recovery set does not contain the offending token: nothing is consumed and the loop spins forever",
    caught="o04_choice_in_loop: the function holding the ordered choice is outside Verus' subset (E8), its assumed progress contract is exactly what the change falsifies, and the bounded stand-in of that function does not return on input `a` (C03 non-termination, replayed on the real emitted parser)"),
 "d06": dict(prop="C06",
    change="the code emitted for the return operator `&` clears error_since_advance after closing the error node (src/backend/rust.rs, Regex::Return)",
    needs="a grammar with `&` where the guarding token is missing and the parent cannot continue with the current token either: two syntax diagnostics on one token",
    caught="t02_return_cond: postcondition [C06] of rule_r (`ewf`: the error flag is only cleared by consuming a token; `same_all` frame of the return path) fails"),
 "d08": dict(prop="C08",
    change="Parser::set_state skips delete_node for rule nodes whose end offset is 0 (both src/skeleton/generated.rs and src/frontend/generated.rs)",
    needs="an abandoned ordered-choice alternative that created an empty node (nullable rule that matched nothing): create_node was announced, delete_node never comes",
    caught="loop invariant [C08] of Parser::set_state (`deleted@ == old deleted@ + one rule_idx entry per cut-off rule node`, ghost log) fails in every unit that verifies the skeleton and in the shipped front end",
    extra={"patch_note": "patch.diff was rebased by hand onto /repo 548a3d4 (the F5 fix touched the adjacent line); patch.orig.diff, if present, is the sub-agent's diff against 3829aed"}),
 "d12": dict(prop="C12",
    change="Token::EOF removed from the recovery set of the inner loop of rule_alternation in the shipped front-end parser (src/frontend/generated.rs)",
    needs="a grammar file that ends inside an alternation after a `|`: advance_with_error at end of input does not advance, the loop never exits (lelwel hangs on the file)",
    caught="unit fe: `decreases` of the inner loop of rule_alternation fails ([C03,C12] termination measure: remaining tokens, with the EOF arm leaving the loop)"),
 "d16": dict(prop="C16",
    change="Parser::peek walks the token vector by hand and jumps over at most one skipped token per lookahead step (src/skeleton/generated.rs)",
    needs="two adjacent skipped tokens inside the lookahead window of a predicate",
    caught="Kani leaf harness peek_matches_spec on the real emitted text of Parser::peek: r == spec_peek(&p, k) fails (bounded: <=4 tokens), CBMC's counterexample trace is in the replay file"),
}


def main():
    for sid, t in sorted(T.items()):
        d = os.path.join(SEEDED, sid)
        if not os.path.isdir(d):
            continue
        out = ""
        for f in ("check_quick.out",):
            p = os.path.join(d, f)
            if os.path.exists(p):
                out = open(p).read()
        vio = sorted(set(re.findall(r"(?m)^VIOLATION property=(C\d+)", out)))
        und = len(re.findall(r"(?m)^UNDECIDED", out))
        nofail = bool(re.search(r"(?m)^VIOLATION property=%s .*no-failing-input-found" % t["prop"], out))
        withinput = bool(re.search(r"(?m)^VIOLATION property=%s replay=\S+$" % t["prop"], out))
        meta = {
            "id": sid, "breaks_property": t["prop"], "change": t["change"], "needs_to_manifest": t["needs"], "origin": ORIGIN,
            "confirmed_by_me": {"how": HOW, "result": CONF},
            "checks_run": {"cmd": "git -C /repo apply seeded/%s/patch.diff && ./check all --tier quick; git -C /repo checkout -- ." % sid,
                           "result": {"violations": vio, "undecided": und,
                                      "target_property_reported_with_failing_input": withinput,
                                      "target_property_reported_without_failing_input": nofail}},
            "caught_by": t["caught"], "detected": t["prop"] in vio,
        }
        meta.update(t.get("extra", {}))
        json.dump(meta, open(os.path.join(d, "meta.json"), "w"), indent=1)
        print(sid, t["prop"], "detected" if meta["detected"] else "MISSED", vio, "undecided=%d" % und)


if __name__ == "__main__":
    sys.exit(main())
