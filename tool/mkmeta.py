#!/usr/bin/env python3
"""Writes seeded/<id>/meta.json for the round-2 seeded changes (d01..d16) from the descriptive table
below plus the outcome of the last `tool/try_seeds.sh quick` run (seeded/<id>/check_quick.out/.err)."""
import json
import os
import re
import sys

SEEDED = os.path.join(os.path.dirname(os.path.dirname(os.path.abspath(__file__))), "seeded")
ORIGIN = "written by an independent sub-agent that saw only the property text and its own scratch worktree of /repo (nothing from /verif)"
HOW = "tool/confirm_seed.sh in the scratch worktree: patch == worktree diff, cargo test --workspace --offline with the change, demo/run.sh with and without the change"
CONF = "patch_matches_diff=yes tests_passed=59 tests_failed=0 demo_with_change_rc=1 demo_without_change_rc=0"

T = {
 "d01": dict(prop="C01",
    change="Parser::init_skip rewritten as `while let Some(&token)`: a leading token skipped through the predicate_skip callback is stepped over but never pushed into the tree (src/skeleton/generated.rs)",
    needs="a parser that overrides predicate_skip and an input whose first token(s) the predicate skips; every later leaf then carries the span of an earlier token",
    caught="the installed Verus rejects the `Some(&token)` pattern of the rewritten function, so no unit that carries the skeleton is decided deductively (30 UNDECIDED lines); the bounded stand-in, which runs for a unit the verifier cannot ingest and drives predicate_skip in half of its runs, finds a one-token input whose tree has no leaf (C01) in the real emitted parser; reported with that failing input, labelled bounded"),
 "d02": dict(prop="C02",
    change="Parser::close no longer closes a pending error node before closing the rule node (src/skeleton/generated.rs)",
    needs="a rule whose body ends in a recovering construct (x*, x+, [x]) that swallowed junk just before the rule's close: the created callback announces a node with an unclosed error child, and the child can extend past the parent",
    caught="precondition of CstData::close (`error node closed`: the mark is the innermost open node) fails inside Parser::close in every unit that verifies the skeleton; the E8 unit o04 additionally fails natively (input `ac`: extent of child exceeds parent)"),
 "d03": dict(prop="C03",
    change="the fall-through of an ordered choice emits parser.error(..) instead of parser.advance_with_error(..) (src/backend/rust.rs, Regex::OrderedChoice)",
    needs="an ordered choice inside a loop whose recovery set does not contain the offending token: nothing is consumed and the loop spins forever",
    caught="o04_choice_in_loop: the function holding the ordered choice is outside Verus' subset (E8), its assumed progress contract is exactly what the change falsifies, and the bounded stand-in of that function does not return on input `a` (C03 non-termination, replayed on the real emitted parser)"),
 "d06": dict(prop="C06",
    change="the code emitted for the return operator `&` clears error_since_advance after closing the error node (src/backend/rust.rs, Regex::Return)",
    needs="a grammar with `&` where the guarding token is missing and the parent cannot continue with the current token either: two syntax diagnostics on one token",
    caught="t02_return_cond: postcondition [C06] of rule_r (`ewf`: the error flag is only cleared by consuming a token; `same_all` frame of the return path) fails"),
 "d08": dict(prop="C08",
    change="Parser::set_state skips delete_node for rule nodes whose end offset is 0 (both src/skeleton/generated.rs and src/frontend/generated.rs)",
    needs="an abandoned ordered-choice alternative that created an empty node (nullable rule that matched nothing): create_node was announced, delete_node never comes",
    caught="loop invariant [C08] of Parser::set_state (`deleted@ == old deleted@ + one rule_idx entry per cut-off rule node`, ghost log) fails in every unit that verifies the skeleton and in the shipped front end",
    extra={"patch_note": "patch.diff was rebased by hand onto /repo 548a3d4 (the F5 fix touched the adjacent line); patch.orig.diff, if present, is the sub-agent's diff against 3829aed"}),
 "d12": dict(prop="C12",
    change="Token::EOF removed from the recovery set of the inner loop of rule_alternation in the shipped front-end parser (src/frontend/generated.rs)",
    needs="a grammar file that ends inside an alternation after a `|`: advance_with_error at end of input does not advance, the loop never exits (lelwel hangs on the file)",
    caught="unit fe: `decreases` of the inner loop of rule_alternation fails ([C03,C12] termination measure: remaining tokens, with the EOF arm leaving the loop)"),
 "d16": dict(prop="C16",
    change="Parser::peek walks the token vector by hand and jumps over at most one skipped token per lookahead step (src/skeleton/generated.rs)",
    needs="two adjacent skipped tokens inside the lookahead window of a predicate",
    caught="Kani leaf harness peek_matches_spec on the real emitted text of Parser::peek: r == spec_peek(&p, k) fails (bounded: <=4 tokens), CBMC's counterexample trace is in the replay file"),
 # ---- round 3 (on the tree with all four fix: commits; machinery with E13 and the proved frame) ----
 "e01": dict(prop="C01",
    change="Parser::mark no longer closes a pending error node (skeleton and shipped front-end copy)",
    needs="garbage skipped right before a rule that starts with mark() (Pratt lhs, marker) whose first token is then rejected by a predicate: the mark lands inside a growing error node, open_before later inserts the wrapper in its middle; leaves visited twice",
    caught="postcondition of Parser::mark (`error_node is None`, `mk(r)`: the mark is a sibling boundary) fails in every unit that verifies the skeleton and in the shipped front end"),
 "e02": dict(prop="C02",
    change="a nameless node creation in a rule that has a rename closes the node with the run-time `node_kind` but still fires create_node_<rule> (src/backend/rust.rs, Regex::NodeCreation)",
    needs="a rule with both an @rename and a nameless creation, the rename reached first: the created callback announces a node whose stored kind is the renamed one",
    caught="precondition cb_node_ready(.., Rule::Item) [C02] of create_node_item fails in rule_item of n10_rename_nameless_creation (grammar shape added to the corpus after reading the agent's report: no corpus grammar combined a rename with a nameless creation)",
    extra={"needed_strengthening": "corpus grammar n10_rename_nameless_creation"}),
 "e03": dict(prop="C03",
    change="RecoverySetGenerator::run initialises the dominator sets without the start node (src/frontend/sema.rs): loops inside recursive rules lose EOF from their recovery set",
    needs="a loop inside a (directly or indirectly) recursive rule, not at the tail of its rule, start rule ending in a terminal; input ending inside the loop: advance_with_error at end of input does not advance, the loop spins",
    caught="`decreases` of the emitted loops fails in e04_uncond_creation, m11_deep, m12_loop_in_recursive, x08_call, x13_marker (layer S defect seen through its layer G consequence; m12 was added after reading the report, the other four units were already in the quick corpus)"),
 "e06": dict(prop="C06",
    change="new runtime function Parser::skip_with_error (a copy of advance_with_error that tests only error_node, not error_since_advance) emitted in the skip arm of * and + loops",
    needs="an element reports an error at token t without consuming it and a */+ loop follows for which t is neither in first, follow nor recovery: two diagnostics on t",
    caught="the emitted code calls a parser function that has no contract: every unit with a loop is UNDECIDED (needs contract: a failed caller would say nothing about the property) and the bounded stand-in, which runs for such units, finds inputs with two diagnostics at the same position in ten units (C06, with failing input, bounded)",
    extra={"needed_strengthening": "policy for uncontracted runtime functions (undecided + bounded stand-in) added after reading the agent's report; before it the failing callers would have been reported as violations of whatever clause failed first"}),
 "e07": dict(prop="C07",
    change="binding powers are only emitted when a left-recursive rule has an infix branch (src/backend/rust.rs output_left_recursive_rule: requires_bp no longer counts prefix branches)",
    needs="a left-recursive rule with a prefix branch declared before a postfix branch and no infix branch: the prefix operand swallows the postfix operators (`-1!` parses as -(1!))",
    caught="x14_prefix_postfix, rule_e::rec: the [C07] obligation `the grammar text has a prefix operator declared before a postfix operator: that needs a minimum binding power, none is emitted` (whether binding powers are needed is decided from the grammar text, not from the emitted code)",
    extra={"needed_strengthening": "before this seed a rule without emitted binding powers was reported as `not covered` - the change would have been MISSED; the missing-binding-power obligation and the grammar x14_prefix_postfix were added after reading the agent's report",
           "patch_note": "patch.diff was rebased by hand onto /repo 9f9c9ce (the F16 fix rewrote the same expression: `requires_bp` is now `any LeftRight || (len > 1 && any Right)`, the seed drops the second disjunct); patch.orig.diff is the sub-agent's diff against d9f18e0"}),
 "e08": dict(prop="C08",
    change="save/restore of the rule-local `node_kind` around an abandoned alternative is dropped when the rule also has conditional elision (src/backend/rust.rs, Regex::OrderedChoice: the four ifs merged into one match whose first arm shadows the combined case)",
    needs="ordered choice + a rename before a failure point in a non-last alternative + conditional elision in the same rule: the node is closed and announced under the name of the alternative that was not taken",
    caught="o12_choice_cond_elide_rename, rule_postfix: assertion [C08] `locals assigned by the abandoned alternative are restored` (node_kind == its value at the alternative's entry) fails after set_state",
    extra={"needed_strengthening": "before this seed the contracts said nothing about the rule's local variables - the change would have been MISSED; the locals-restored assertion and the grammar o12_choice_cond_elide_rename were added after reading the agent's report"}),
 # ---- round 4 (on the tree with five fix: commits; checks run BEFORE reading anything but the agents' summaries, no strengthening) ----
 "g01": dict(prop="C01",
    change="the prefix-operator arm of an emitted left-recursive rule assigns `lhs = parser.mark(diags)` instead of declaring a new `let lhs` (src/backend/rust.rs output_left_recursive_rule)",
    needs="a left-recursive rule with a prefix branch and a weaker infix/postfix operator after the prefix operand (`-1 + 2`): open_before(lhs) inserts inside the closed prefix node, the two nodes overlap and a walk visits tokens twice",
    caught="loop invariant `lhs.0 == lhs0.0` / `mk(lhs)` [C02,C01] of the operator loop fails before the loop in rule_e::rec / rule_expr::rec of ex_calc, x05_prefix, x07_mixed, x14_prefix_postfix"),
 "g03": dict(prop="C03",
    change="CstData::close computes `non_skip_len - 1 - mark.0` unconditionally (the branch for an empty node behind skipped tokens removed)",
    needs="an empty node opened through mark()+open_before() (conditional elision, marker/creation) right after a skipped token: subtraction overflow (debug) / out-of-range offset (release)",
    caught="Verus: `possible arithmetic underflow/overflow` in CstData::close in every unit that verifies the skeleton; bounded native run: `attempt to subtract with overflow` on input `d` in e02_cond, t02_return_cond, o06_choice_elide_rename"),
 "g12": dict(prop="C12",
    change="LL1Validator::calc_follow_regex creates the left_rec_local_follow_sets entry only when it is going to extend it (src/frontend/sema.rs)",
    needs="a left-recursive rule that no other rule references (a `part`, or an unused rule): check_regex indexes the missing entry and panics (`no entry found for key`)",
    caught="bounded front-end stand-in (fecheck): panic on single-lexeme edits of the seed grammars (e.g. calc.llw with one token deleted); with the failing texts (bounded)"),
 "g16": dict(prop="C16",
    change="Parser::advance sets error_since_advance when it skips a lexer Error token (src/skeleton/generated.rs)",
    needs="an Error token directly before a position where a syntax error is due or before a `&` return: the next diagnostic is swallowed / a valid rule is abandoned; every single tree stays lossless and well formed - visible only by comparing two parses",
    caught="the bounded relational check of C16 (parse with and without the skipped tokens): `removing the skipped tokens changes the diagnostics` in 20 units, with failing inputs (bounded); Verus rejects the `matches!(token, ..)` on a reference in the rewritten loop, so the skeleton units themselves are UNDECIDED"),
 # ---- round 5 ------------------------------------------------------------------------------------
 "k02": dict(prop="C02",
    change="Parser::open_before inserts the new node first and closes the pending error node afterwards (skeleton and shipped front-end copy): the error node is closed at its index from before the insertion",
    needs="open_before directly after a loop skipped tokens with advance_with_error (end of a conditionally elided rule, a node creation, an operator arm): the node in front of the error node is overwritten by the error header, the real placeholder stays open; extents still nest",
    caught="Verus: inside Parser::open_before the precondition of close_error_node (tree invariant twf: the recorded error_node names the open error node on top of the stack) fails after the insertion, in every skeleton unit; tags C01, C02, C03, and C12 through the shipped copy (there with a failing input from the falsifier)"),
 "k06": dict(prop="C06",
    change="the follow arm of an emitted `+` loop clears error_since_advance before `break` (src/backend/rust.rs output_recovering_operation)",
    needs="a `+` loop whose last operand fails at a token that is in the loop's (global) follow set but cannot follow this occurrence: the operand reports the token, the loop clears the flag, the caller reports the same token again",
    caught="Verus: diag_ok (strictly increasing diagnostic positions) cannot be re-established after the direct write to the flag - failed [C06] obligations in every rule function with a `+` loop (fe_regen, q02_parts_shared, ...); the falsifier then finds inputs with two diagnostics on one token (replay files with input)"),
 "k07": dict(prop="C07",
    change="OperatorValidator::run returns as soon as every `right` token has been seen as the operator of a binary branch (src/frontend/sema.rs) - the set of pending tokens is shared by all rules, so later left-recursive rules are never visited",
    needs="two left-recursive rules in one grammar, the `right` tokens all used by the earlier one: the later rule's right-associative branch keeps the unswapped powers and groups to the left",
    caught="[C07] assertions `R == rbp_arm` (binding power passed for the right operand against the table read from the grammar text) and the loop exit condition fail in rule_t::rec of x17_two_pratt_rules",
    extra={"first_run": "MISSED: no corpus grammar had two Pratt rules; x17_two_pratt_rules added (grammar shape), nothing else changed"}),
 "k08": dict(prop="C08",
    change="the emitted ordered choice resets in_ordered_choice inside the guarded last alternative instead of before it (src/backend/rust.rs): when no alternative applies the flag stays set after the choice",
    needs="a token in no alternative's predict set at an ordered choice, and later a mismatch in a rule that is also used inside a choice: try_expect! returns None silently, node left open, no diagnostic",
    caught="Verus: the [C08] postcondition `!old.flag ==> !final.flag` of every rule function containing an ordered choice fails (o03, o04, o05, o06, o09, kf_f5, kf_f9); the bounded stand-in finds inputs where the flag is still set when the root node is announced"),
 "k12": dict(prop="C12",
    change="lexer.rs parse_string bumps two bytes for every backslash (`an escape is always two bytes`)",
    needs="a text that ends right after a backslash inside a string, or a multi-byte character after the backslash: logos' bump panics (`Invalid Lexer bump`)",
    caught="bounded front-end stand-in (fecheck): panics on prefixes of the built-in lexer seeds and on byte-soup texts, with the failing texts (bounded)",
    extra={"first_run": "MISSED: no seed grammar and no alphabet symbol of fecheck contained a backslash; built-in lexer seeds, LEXALPHA and the byte soup added (this also exposed F17 on the unchanged tree)"}),
 "k16": dict(prop="C16",
    change="Parser::peek_left: `.skip(lookbehind).find(not skipped)` instead of `.filter(not skipped).nth(lookbehind)` (skeleton and shipped copy)",
    needs="peek_left(n), n >= 2, in a predicate with skipped tokens among the nearest n tokens: a different alternative is taken after inserting trivia",
    caught="Kani leaf harness peek_left_matches_spec (bounded, <= 4 tokens) on the real text of Parser::peek_left fails in the skeleton units and the shipped front end"),
 # ---- round 6 ------------------------------------------------------------------------------------
 "m01": dict(prop="C01",
    change="the code emitted for the return operator `&` closes the error node through output_cst_close(.., is_start = true), i.e. with close_root instead of close (src/backend/rust.rs)",
    needs="`&` fires after at least one consumed token, a skipped token follows, and the calling rule ends without consuming: the error node swallows the trailing skipped tokens, the caller's extent ends before its child's, tokens are visited twice",
    caught="Verus: precondition of Parser::close_root (the open-node stack is exactly the root) fails at the emitted `&` in rule_r of t02_return_cond (quick tier), and with it the rule's postcondition twf; tags C01, C02, C03"),
 "m02": dict(prop="C02",
    change="nodes opened with open_before are closed through parser.cst.data.close(..) directly, skipping close_error_node, also at the end of a left-recursive branch (src/backend/rust.rs output_cst_close)",
    needs="a left-recursive branch that ends in a recovering construct which skipped a token: create_node_<rule> fires while its error-node child is still an open placeholder",
    caught="Verus: precondition of CstData::close (the mark is the innermost open node, i.e. no pending error node above it) cannot be established at the direct call in every Pratt `rec` and every conditionally elided rule; tags C01, C02, C03 (and C12 through fe_regen)",
    extra={"note": "first run took 19 min because every one of 193 violation lines triggered its own native search for a failing input; the falsifier is now run once per unit and for at most eight units per invocation (it only illustrates, it never decides): 104 s"}),
 "m03": dict(prop="C03",
    change="for a loop / optional whose body carries a predicate the emitted follow arm also lists FIRST(body): a token rejected by the predicate leaves the loop instead of being skipped (src/backend/rust.rs output_recovering_operation)",
    needs="a predicate-guarded loop inside another repetition, the guarded token not in the inner loop's follow set, predicate false: the outer loop re-enters its body for ever",
    caught="Verus: `decreases` of the outer loop in p09_pred_loop_in_loop",
    extra={"first_run": "MISSED: no corpus grammar had a predicate-guarded loop inside a repetition; p09_pred_loop_in_loop added (grammar shape), nothing else changed"}),
 "m06": dict(prop="C06",
    change="LL1Validator::calc_follow_regex requests another fixpoint iteration only when the referenced rule is declared BEFORE the current one (`<` where `<=` is needed): what a self-reference adds to a rule's follow set never reaches the rule's own nullable tails (src/frontend/sema.rs)",
    needs="a rule referring to itself with something behind the occurrence, a nullable tail (`Num [Unit]`), and a grammar written top-down: the optional's follow arm misses the operators, the sentence `n+n` draws a diagnostic on `+`",
    caught="bounded first-error check (tool/viable.py) on x18_atom_nullable_tail: a sentence draws a diagnostic; with the failing input (bounded)",
    extra={"first_run": "MISSED: no corpus grammar had a nullable tail behind the atom of a Pratt rule; x18_atom_nullable_tail added (grammar shape, in the units of the first-error check)"}),
 "m08": dict(prop="C08",
    change="a commit `~` inside a parenthesised group also ends the undoable region for what follows the group - decided with `any` over the branches of an alternation where `all` is needed (src/frontend/sema.rs calc_containment_regex)",
    needs="`x: A [e (B ~ | F) #1] C / A e F D;`: the branch without `~` is taken, the action runs with the flag still set, the alternative is then abandoned",
    caught="the grammar is one the unchanged tree REJECTS (E029); as corpus unit rj_action_after_partial_commit it is accepted by the changed tree and the precondition cb_committed of the action callback fails in rule_x (Verus), and the bounded stand-in finds input `a e f` on which the action runs while in_ordered_choice is set",
    extra={"first_run": "MISSED: the two rj_* grammars did not have this shape; rj_action_after_partial_commit added, and the native harness now also reports an action that runs while the choice flag is set"}),
 "m12": dict(prop="C12",
    change="GeneralCheck::check_node_creation unwraps the operand of `[..]`, `*`, `+` (`cannot be empty`) instead of `if let` (src/frontend/sema.rs)",
    needs="a grammar text with `[` not followed by a regex (e.g. `a:[`): the resilient parser closes an Optional node without operand, the pass panics",
    caught="bounded front-end stand-in (fecheck): panics on prefixes / deletions of the seed grammars that leave an empty `[ ]`; with the failing texts (bounded)"),
}


def main():
    # later rounds keep their descriptive table next to the seeds (seeded/round*.json: {id: {prop, change, needs, caught, extra}})
    for f in sorted(os.listdir(SEEDED)):
        if re.fullmatch(r"round\d+\.json", f):
            T.update(json.load(open(os.path.join(SEEDED, f))))
    only = set(sys.argv[1:])
    for sid, t in sorted(T.items()):
        if only and sid not in only:
            continue
        d = os.path.join(SEEDED, sid)
        if not os.path.isdir(d):
            continue
        out = ""
        for f in ("check_quick.out",):
            p = os.path.join(d, f)
            if os.path.exists(p):
                out = open(p).read()
        vio = sorted(set(re.findall(r"(?m)^VIOLATION property=(C\d+)", out)))
        und = len(re.findall(r"(?m)^UNDECIDED", out))
        nofail = bool(re.search(r"(?m)^VIOLATION property=%s .*no-failing-input-found" % t["prop"], out))
        withinput = bool(re.search(r"(?m)^VIOLATION property=%s replay=\S+$" % t["prop"], out))
        meta = {
            "id": sid, "breaks_property": t["prop"], "change": t["change"], "needs_to_manifest": t["needs"], "origin": ORIGIN,
            "confirmed_by_me": {"how": HOW, "result": CONF},
            "checks_run": {"cmd": "git -C /repo apply seeded/%s/patch.diff && ./check all --tier quick; git -C /repo checkout -- ." % sid,
                           "result": {"violations": vio, "undecided": und,
                                      "target_property_reported_with_failing_input": withinput,
                                      "target_property_reported_without_failing_input": nofail}},
            "caught_by": t["caught"], "detected": t["prop"] in vio,
        }
        meta.update(t.get("extra", {}))
        json.dump(meta, open(os.path.join(d, "meta.json"), "w"), indent=1)
        print(sid, t["prop"], "detected" if meta["detected"] else "MISSED", vio, "undecided=%d" % und)


if __name__ == "__main__":
    sys.exit(main())
