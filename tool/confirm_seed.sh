#!/bin/bash
# Confirm a seeded change produced by a sub-agent, in its scratch worktree /tmp/wt_<id>:
#   1. the patch is exactly the worktree's source diff
#   2. the existing suite passes WITH the change
#   3. the demonstration fails WITH the change and passes WITHOUT it
# usage: confirm_seed.sh <id>        (e.g. c01)      -> one summary line on stdout, details in the log
id="$1"
wt="/tmp/wt_$id"
log="/verif/.cache/confirm_$id.log"
: > "$log"
cd "$wt" || { echo "$id: no worktree"; exit 2; }
if ! git diff --quiet -- src; then :; else git apply seed/patch.diff >> "$log" 2>&1; fi
git diff -- src > /tmp/confirm_$id.diff
if diff -q /tmp/confirm_$id.diff seed/patch.diff >> "$log" 2>&1; then same=yes; else same=no; fi
CARGO_NET_OFFLINE=true cargo test --workspace --no-fail-fast --offline >> "$log" 2>&1
passed=$(grep -E "^test result" "$log" | awk '{s+=$4} END {print s+0}')
failed=$(grep -E "^test result" "$log" | awk '{s+=$6} END {print s+0}')
echo "=== demo WITH change" >> "$log"
timeout 1500 bash seed/demo/run.sh "$wt" >> "$log" 2>&1
with=$?
git apply -R seed/patch.diff >> "$log" 2>&1
echo "=== demo WITHOUT change" >> "$log"
timeout 1500 bash seed/demo/run.sh "$wt" >> "$log" 2>&1
without=$?
git apply seed/patch.diff >> "$log" 2>&1
echo "$id: patch_matches_diff=$same tests_passed=$passed tests_failed=$failed demo_with_change_rc=$with demo_without_change_rc=$without"
