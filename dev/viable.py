#!/usr/bin/env python3
"""Development probe (not part of any registered check): C06's first clause on a corpus grammar.

For a grammar without predicates / assertions / ordered choice, an Earley recogniser built from the
GRAMMAR TEXT decides for every token sequence up to a length bound how long its longest viable prefix
is; the real emitted parser (native harness of tool/falsify.py, `dump` mode) must put its first syntax
diagnostic exactly on the token after it (at end of input if the whole input is a viable prefix but
no sentence; none at all for a sentence).

usage: viable.py <grammar.llw> <generated.rs> <workdir> [maxlen]
"""
import itertools
import json
import os
import re
import subprocess
import sys

sys.path.insert(0, os.path.join(os.path.dirname(os.path.dirname(os.path.abspath(__file__))), "tool"))
import pratt      # noqa: E402
import falsify    # noqa: E402


class Skip(Exception):
    pass


def read_grammar(text):
    decls = pratt._decls(text)
    if decls is None:
        raise Skip("cannot lex the grammar text")
    sym, skips, rules, start = {}, set(), {}, None
    order = []
    for d in decls:
        if not d:
            continue
        if d[0] == "token":
            i = 1
            while i < len(d):
                if i + 2 < len(d) and d[i + 1] == "=":
                    sym[d[i + 2]] = d[i]
                    i += 3
                else:
                    i += 1
        elif d[0] == "skip":
            skips |= set(d[1:])
        elif d[0] == "start":
            start = d[1]
        elif d[0] in ("right", "part"):
            continue
        elif len(d) >= 2 and re.fullmatch(r"[a-z_]\w*", d[0]) and ":" in d[:3]:
            rules[d[0]] = d[d.index(":") + 1:]
            order.append(d[0])
    return sym, skips, rules, start or (order[0] if order else None)


def parse_expr(toks, sym):
    """-> AST: ('alt', [..]) ('seq', [..]) ('star', e) ('plus', e) ('opt', e) ('t', Name) ('n', name)"""
    pos = [0]

    def peek():
        return toks[pos[0]] if pos[0] < len(toks) else None

    def alt():
        items = [seq()]
        while peek() == "|":
            pos[0] += 1
            items.append(seq())
        return ("alt", items) if len(items) > 1 else items[0]

    def seq():
        items = []
        while peek() is not None and peek() not in ("|", ")", "]"):
            t = peek()
            if t == "/":
                raise Skip("ordered choice")
            if t.startswith("?") or t.startswith("!"):
                raise Skip("predicate / assertion")
            if t in ("^", "~", "&", ">") or t[0] in "#@<" or re.fullmatch(r"[0-9]+>\w*|>\w*", t):
                pos[0] += 1
                continue
            if t == "(":
                pos[0] += 1
                e = alt()
                assert peek() == ")"
                pos[0] += 1
            elif t == "[":
                pos[0] += 1
                e = ("opt", alt())
                assert peek() == "]"
                pos[0] += 1
            elif t.startswith("'"):
                pos[0] += 1
                e = ("t", sym[t])
            elif re.fullmatch(r"[A-Z]\w*", t):
                pos[0] += 1
                e = ("t", t)
            elif re.fullmatch(r"[a-z_]\w*", t):
                pos[0] += 1
                e = ("n", t)
            else:
                raise Skip("unknown element %r" % t)
            while peek() in ("*", "+"):
                e = ("star" if peek() == "*" else "plus", e)
                pos[0] += 1
            items.append(e)
        return ("seq", items)

    e = alt()
    if pos[0] != len(toks):
        raise Skip("trailing tokens in rule body")
    return e


def to_cfg(rules, sym):
    prods = {}      # nonterminal -> list of right-hand sides (tuples of ('t',X)/('n',Y))
    cnt = [0]

    def fresh():
        cnt[0] += 1
        return "_g%d" % cnt[0]

    def lower(e):
        """-> a single symbol standing for e"""
        k = e[0]
        if k in ("t", "n"):
            return e
        n = fresh()
        if k == "seq":
            prods[n] = [tuple(lower(x) for x in e[1])]
        elif k == "alt":
            prods[n] = [(lower(x),) for x in e[1]]
        elif k == "opt":
            prods[n] = [(), (lower(e[1]),)]
        elif k == "star":
            b = lower(e[1])
            prods[n] = [(), (b, ("n", n))]
        elif k == "plus":
            b = lower(e[1])
            prods[n] = [(b,), (b, ("n", n))]
        return ("n", n)

    for name, body in rules.items():
        e = parse_expr(body, sym)
        s = lower(e)
        prods.setdefault(name, []).append((s,))
    return prods


def nullable_set(prods):
    nul = set()
    ch = True
    while ch:
        ch = False
        for n, rhss in prods.items():
            if n in nul:
                continue
            for rhs in rhss:
                if all(s[0] == "n" and s[1] in nul for s in rhs):
                    nul.add(n)
                    ch = True
                    break
    return nul


def earley(prods, nul, start, toks):
    """-> (length of the longest viable prefix, is_sentence)"""
    S = [set() for _ in range(len(toks) + 1)]
    S[0].add(("_start", (("n", start),), 0, 0))
    viable = 0
    for i in range(len(toks) + 1):
        work = list(S[i])
        while work:
            (lhs, rhs, dot, org) = work.pop()
            if dot < len(rhs):
                s = rhs[dot]
                if s[0] == "n":
                    for r in prods.get(s[1], []):
                        it = (s[1], r, 0, i)
                        if it not in S[i]:
                            S[i].add(it)
                            work.append(it)
                    if s[1] in nul:
                        it = (lhs, rhs, dot + 1, org)
                        if it not in S[i]:
                            S[i].add(it)
                            work.append(it)
                elif i < len(toks) and s[1] == toks[i]:
                    S[i + 1].add((lhs, rhs, dot + 1, org))
            else:
                for (l2, r2, d2, o2) in list(S[org]):
                    if d2 < len(r2) and r2[d2] == ("n", lhs):
                        it = (l2, r2, d2 + 1, o2)
                        if it not in S[i]:
                            S[i].add(it)
                            work.append(it)
        if i < len(toks) and S[i + 1]:
            viable = i + 1
        else:
            break
    sent = viable == len(toks) and any(l == "_start" and d == len(r) for (l, r, d, o) in S[len(toks)])
    return viable, sent


def main():
    gpath, gen, work = sys.argv[1:4]
    maxlen = int(sys.argv[4]) if len(sys.argv) > 4 else 5
    text = open(gpath).read()
    try:
        sym, skips, rules, start = read_grammar(text)
        prods = to_cfg(rules, sym)
    except Skip as e:
        print(json.dumps({"status": "not_applicable", "why": str(e)}))
        return 0
    nul = nullable_set(prods)
    exe, info = falsify.build_harness(open(gen).read(), work)
    if exe is None:
        print(json.dumps({"status": "build_failed", "detail": info}))
        return 2
    chars = {c: t for c, t in info["chars"].items() if t not in skips and t != "Error"}
    alpha = sorted(chars)
    while maxlen > 2 and len(alpha) ** maxlen > 20000:
        maxlen -= 1
    n = bad = 0
    fails = []
    for ln in range(0, maxlen + 1):
        for tup in itertools.product(alpha, repeat=ln):
            s = "".join(tup)
            toks = [chars[c] for c in tup]
            k, sent = earley(prods, nul, start, toks)
            want = None if sent else k
            r = subprocess.run([exe, "dump", s], stdout=subprocess.PIPE, stderr=subprocess.PIPE, text=True, timeout=20)
            ds = [int(m.group(1)) for m in re.finditer(r"(?m)^diag (\d+)\.\.\d+ .* syntax=true", r.stdout)]
            got = ds[0] if ds else None
            n += 1
            if got != want:
                bad += 1
                if len(fails) < 10:
                    fails.append({"input": s, "tokens": toks, "first_diag_at": got, "expected_at": want, "sentence": sent})
    print(json.dumps({"status": "ok" if not bad else "fail", "inputs": n, "mismatches": bad, "maxlen": maxlen, "alphabet": len(alpha), "examples": fails}, indent=1))
    return 0


if __name__ == "__main__":
    sys.exit(main())
