#!/usr/bin/env python3
"""Development aid, NOT part of any registered check: widen the sample of the `programs` quantifier.

Takes the micro-grammars of /verif/grammars, makes single-lexeme edits (delete / replace / insert a
grammar-language symbol), keeps the variants lelwel ACCEPTS, and runs the bounded native harness of
tool/falsify.py on the parser emitted for each (all token sequences up to a small length): C01, C02,
C03, C06, C08 oracles.  Every failure is a candidate defect of lelwel (or of the harness) and is
triaged by hand.

usage: hunt.py <outdir> [max_accepted] [seed-glob]
"""
import concurrent.futures as cf
import glob
import hashlib
import json
import os
import re
import shutil
import subprocess
import sys
import time

VERIF = os.path.dirname(os.path.dirname(os.path.abspath(__file__)))
sys.path.insert(0, os.path.join(VERIF, "tool"))
import falsify      # noqa: E402

LLWGEN = os.path.join(VERIF, ".cache", "target", "release", "llwgen")
SYMS = ["*", "+", "?1", "#1", "!1", "^", "~", "/", "|", "&", ">", "<1", "1>", "@zz", "(", ")", "[", "]"]


def lexemes(s):
    return [(m.start(), m.end()) for m in re.finditer(r"\s+|//[^\n]*|'[^'\n]*'?|[A-Za-z_][A-Za-z0-9_]*|[0-9]+|.", s, re.S)]


def variants(text):
    # only the rule part (after the `start` line) is edited
    m = re.search(r"(?m)^start\s+\w+\s*;\s*$", text)
    lo = m.end() if m else 0
    lx = [(a, b) for (a, b) in lexemes(text) if a >= lo and text[a:b].strip()]
    names = sorted(set(re.findall(r"\b[A-Za-z_][A-Za-z0-9_]*\b", text[lo:])))[:8]
    out = []
    for (a, b) in lx:
        out.append(text[:a] + text[b:])
        for s in SYMS + names:
            out.append(text[:a] + s + " " + text[a:])
            out.append(text[:a] + s + text[b:])
    return out


def work(job):
    try:
        return work1(job)
    except Exception as e:      # e.g. the emitted text cannot be lexed by tool/rsx.py
        return {"i": job[0], "status": "tool_exception", "grammar": job[1], "detail": "%s: %s" % (type(e).__name__, str(e)[:300])}


def work1(job):
    i, text, outdir = job
    d = os.path.join(outdir, "w%06d" % i)
    os.makedirs(d, exist_ok=True)
    g = os.path.join(d, "g.llw")
    open(g, "w").write(text)
    for f in ("lexer.rs", "parser.rs"):
        open(os.path.join(d, f), "w").write("")
    try:
        r = subprocess.run([LLWGEN, g, d], stdout=subprocess.PIPE, stderr=subprocess.PIPE, text=True, timeout=60)
    except subprocess.TimeoutExpired:
        return {"i": i, "status": "generator_timeout", "grammar": text}
    if r.returncode == 101 or "panicked" in r.stderr:
        return {"i": i, "status": "generator_panic", "grammar": text, "detail": r.stderr[-400:]}
    if r.returncode != 0:
        shutil.rmtree(d, ignore_errors=True)
        return {"i": i, "status": "rejected"}
    gen = open(os.path.join(d, "generated.rs")).read()
    exe, info = falsify.build_harness(gen, os.path.join(d, "native"))
    if exe is None:
        return {"i": i, "status": "emitted_code_does_not_compile", "grammar": text, "detail": info.get("error", "")[-600:]}
    n = len(info["chars"])
    ml = 5
    while ml > 2 and n ** ml > 60000:
        ml -= 1
    res = falsify.run_search(exe, ml, 200000, timeout=120)
    res.update({"i": i, "grammar": text, "max_len": ml})
    if res.get("status") == "none":
        # first clause of C06 (first diagnostic at the first offending token), where the grammar qualifies
        import viable
        v = viable.run(text, exe, info, budget=8000, timeout=120)
        if v.get("status") == "fail":
            return {"i": i, "status": "first_error_mismatch", "grammar": text, "input": v.get("input"), "what": v.get("what"), "examples": v.get("examples")}
        shutil.rmtree(d, ignore_errors=True)
        return {"i": i, "status": "accepted_ok" if v.get("status") != "ok" else "accepted_ok_first_error_checked"}
    res["alphabet"] = info["chars"]
    return res


def main():
    outdir = sys.argv[1]
    maxacc = int(sys.argv[2]) if len(sys.argv) > 2 else 400
    pat = sys.argv[3] if len(sys.argv) > 3 else os.path.join(VERIF, "grammars", "*.llw")
    os.makedirs(outdir, exist_ok=True)
    seen = set()
    jobs = []
    for p in sorted(glob.glob(pat)):
        if os.path.basename(p).startswith("kf_"):
            continue
        t = open(p).read()
        for v in variants(t):
            h = hashlib.sha1(v.encode()).hexdigest()
            if h not in seen:
                seen.add(h)
                jobs.append(v)
    # spread over the seeds
    step = max(1, len(jobs) // 6000)
    jobs = jobs[::step]
    print("variants:", len(jobs), flush=True)
    t0 = time.time()
    acc = 0
    findings = []
    stats = {}
    first = int(sys.argv[4]) if len(sys.argv) > 4 else 0
    all_jobs = [(i, v, outdir) for i, v in enumerate(jobs)][first:]
    with cf.ThreadPoolExecutor(max_workers=int(os.environ.get("HUNT_WORKERS", "14"))) as ex:
        for b in range(0, len(all_jobs), 280):
            for r in ex.map(work, all_jobs[b:b + 280]):
                stats[r["status"]] = stats.get(r["status"], 0) + 1
                if r["status"] in ("accepted_ok", "accepted_ok_first_error_checked"):
                    acc += 1
                elif r["status"] != "rejected":
                    acc += 1
                    findings.append(r)
                    print(json.dumps({k: r.get(k) for k in ("status", "input", "what", "grammar", "detail")})[:900], flush=True)
            print("progress", b + 280, "of", len(all_jobs), stats, flush=True)
            if acc >= maxacc:
                break
    json.dump({"stats": stats, "findings": findings, "wall_s": round(time.time() - t0)}, open(os.path.join(outdir, "hunt.json"), "w"), indent=1)
    print("stats", stats, "wall", round(time.time() - t0), flush=True)


if __name__ == "__main__":
    main()
