//! Kani harnesses for the leaf functions of the emitted runtime that Verus cannot ingest.
//! `extracted.rs` is written on every run by /verif/tool/kani_leaves.py: it contains the REAL text
//! of these functions, cut out of the parser lelwel emits from /repo's current tree.
#![allow(dead_code, unused)]

pub type Span = core::ops::Range<usize>;

// `pub enum Token {..}`, `TOKENS` (all variants) and `is_skip` (the skip set as DECLARED IN THE
// GRAMMAR, not as emitted) come from tokens.rs, written next to extracted.rs on every run.
include!("tokens.rs");
#[derive(Debug, Copy, Clone, PartialEq, Eq)]
pub enum Rule { Error, R }
#[derive(Debug, Copy, Clone)]
pub enum Node { Rule(Rule, CstIndex), Token(Token, CstIndex) }
#[derive(Debug, Copy, Clone, PartialEq, Eq)]
pub struct NodeRef(pub usize);

include!("extracted.rs");

#[cfg(kani)]
mod proofs {
    use super::*;

    // ---- E2: CstIndex, complete (loop-free, full domain) -------------------------------------------
    #[kani::proof]
    fn cidx_roundtrip() {
        let x: usize = kani::any();
        kani::assume(x < (1usize << 48));
        let c = CstIndex::from(x);
        assert!(usize::from(c) == x);
    }
    #[kani::proof]
    fn cidx_bound() {
        let b: [u8; 6] = kani::any();
        let c = CstIndex(b);
        assert!(usize::from(c) < (1usize << 48));
    }

    fn any_token() -> Token {
        let k: usize = kani::any();
        kani::assume(k < TOKENS.len());
        TOKENS[k]
    }

    const N: usize = 4;

    fn any_parser() -> Parser {
        let len: usize = kani::any();
        kani::assume(len <= N);
        // loop-free construction (cheaper for CBMC than pushing in a loop)
        let (t0, t1, t2, t3) = (any_token(), any_token(), any_token(), any_token());
        let (tokens, spans): (Vec<Token>, Vec<Span>) = match len {
            0 => (vec![], vec![]),
            1 => (vec![t0], vec![0..1]),
            2 => (vec![t0, t1], vec![0..1, 1..2]),
            3 => (vec![t0, t1, t2], vec![0..1, 1..2, 2..3]),
            _ => (vec![t0, t1, t2, t3], vec![0..1, 1..2, 2..3, 3..4]),
        };
        let pos: usize = kani::any();
        kani::assume(pos <= len);
        Parser { tokens, pos, end_of_input: Token::EOF, max_offset: len, cst: Cst { data: CstData { spans, nodes: Vec::new() } } }
    }

    // reference: k-th non-skipped token at or after `from`, else end of input
    fn spec_peek(p: &Parser, k: usize) -> Token {
        let mut i = p.pos;
        let mut k = k;
        while i < p.tokens.len() {
            if !is_skip(p.tokens[i]) {
                if k == 0 { return p.tokens[i]; }
                k -= 1;
            }
            i += 1;
        }
        p.end_of_input
    }
    fn spec_peek_left(p: &Parser, k: usize) -> Token {
        if p.tokens.is_empty() { return p.end_of_input; }
        let mut i = if p.pos >= p.tokens.len() { p.tokens.len() - 1 } else { p.pos };
        let mut k = k;
        loop {
            if !is_skip(p.tokens[i]) {
                if k == 0 { return p.tokens[i]; }
                k -= 1;
            }
            if i == 0 { return p.end_of_input; }
            i -= 1;
        }
    }

    // ---- E3, BOUNDED: at most N tokens -------------------------------------------------------------
    #[kani::proof]
    #[kani::unwind(7)]
    fn peek_matches_spec() {
        let p = any_parser();
        let k: usize = kani::any();
        kani::assume(k <= N);
        let r = p.peek(k);
        assert!(r == spec_peek(&p, k));
        assert!(r == p.end_of_input || !is_skip(r));       // [C16] lookahead never sees a skipped token
    }
    #[kani::proof]
    #[kani::unwind(7)]
    fn peek_left_matches_spec() {
        let p = any_parser();
        let k: usize = kani::any();
        kani::assume(k <= N);
        let r = p.peek_left(k);
        assert!(r == spec_peek_left(&p, k));
        assert!(r == p.end_of_input || !is_skip(r));
    }
    // CstData::span: token node -> the lexer's span; rule node -> from the first to the last token
    // leaf inside the node's extent, else the empty span at the end of the last token before it.
    #[kani::proof]
    #[kani::unwind(5)]
    fn cst_span_matches_spec() {
        let len: usize = kani::any();
        kani::assume(len >= 1 && len <= 3);       // BOUNDED: at most 3 nodes
        // loop-free construction: node i is a rule node (with a symbolic in-range offset) or the next token
        let is_rule: [bool; 3] = [kani::any(), kani::any(), kani::any()];
        let offs: [usize; 3] = [kani::any(), kani::any(), kani::any()];
        kani::assume(offs[0] <= 2 && offs[1] <= 1 && offs[2] == 0);
        kani::assume(offs[0] < len && 1 + offs[1] < len.max(2));
        let tk = [Token::T0_, Token::T1_, Token::T0_];
        let idx1 = if is_rule[0] { 0 } else { 1 };
        let idx2 = idx1 + if is_rule[1] { 0 } else { 1 };
        let n0 = if is_rule[0] { Node::Rule(Rule::R, CstIndex::from(offs[0])) } else { Node::Token(tk[0], CstIndex::from(0usize)) };
        let n1 = if is_rule[1] { Node::Rule(Rule::R, CstIndex::from(offs[1])) } else { Node::Token(tk[1], CstIndex::from(idx1)) };
        let n2 = if is_rule[2] { Node::Rule(Rule::R, CstIndex::from(offs[2])) } else { Node::Token(tk[2], CstIndex::from(idx2)) };
        let nodes = match len { 1 => vec![n0], 2 => vec![n0, n1], _ => vec![n0, n1, n2] };
        let spans: Vec<Span> = vec![0..1, 2..3, 4..5];   // enough spans for every token index
        let d = CstData { spans, nodes };
        let k: usize = kani::any();
        kani::assume(k < len);
        let r = d.span(NodeRef(k));
        match d.nodes[k] {
            Node::Token(_, idx) => assert!(r == d.spans[usize::from(idx)]),
            Node::Rule(_, off) => {
                let end = k + usize::from(off);
                let mut first: Option<usize> = None;
                let mut last: Option<usize> = None;
                let mut j = k + 1;
                while j <= end {
                    if let Node::Token(_, idx) = d.nodes[j] {
                        if first.is_none() { first = Some(usize::from(idx)); }
                        last = Some(usize::from(idx));
                    }
                    j += 1;
                }
                match (first, last) {
                    (Some(a), Some(b)) => assert!(r == (d.spans[a].start..d.spans[b].end)),
                    _ => {
                        let mut before: Option<usize> = None;
                        let mut j = 0;
                        while j < k {
                            if let Node::Token(_, idx) = d.nodes[j] { before = Some(usize::from(idx)); }
                            j += 1;
                        }
                        let o = match before { Some(b) => d.spans[b].end, None => 0 };
                        assert!(r == (o..o));
                    }
                }
            }
        }
        assert!(r.start <= r.end);
    }
    #[kani::proof]
    #[kani::unwind(7)]
    fn span_matches_spec() {
        let p = any_parser();
        let r = p.span();
        if p.pos < p.cst.data.spans.len() { assert!(r == p.cst.data.spans[p.pos]); } else { assert!(r == (p.max_offset..p.max_offset)); }
        assert!(r.start <= r.end && r.end <= p.max_offset);  // [C06] inside the source
    }
}
