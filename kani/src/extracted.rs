#[derive(Debug, Copy, Clone)]
pub struct CstIndex(pub [u8; 6]);
impl From<CstIndex> for usize {
    #[cfg(target_pointer_width = "64")]
    #[inline]
    fn from(value: CstIndex) -> Self {
        let [b0, b1, b2, b3, b4, b5] = value.0;
        usize::from_le_bytes([b0, b1, b2, b3, b4, b5, 0, 0])
    }
    #[cfg(any(target_pointer_width = "16", target_pointer_width = "32"))]
    #[inline]
    fn from(value: CstIndex) -> Self {
        value.0
    }
}
impl From<usize> for CstIndex {
    #[cfg(target_pointer_width = "64")]
    #[inline]
    fn from(value: usize) -> Self {
        let [b0, b1, b2, b3, b4, b5, b6, b7] = value.to_le_bytes();
        debug_assert!(b6 == 0 && b7 == 0);
        Self([b0, b1, b2, b3, b4, b5])
    }
    #[cfg(any(target_pointer_width = "16", target_pointer_width = "32"))]
    #[inline]
    fn from(value: usize) -> Self {
        Self(value)
    }
}
pub struct CstData { pub spans: Vec<Span>, pub nodes: Vec<Node> }
pub struct Cst { pub data: CstData }
pub struct Parser { pub tokens: Vec<Token>, pub pos: usize, pub end_of_input: Token, pub max_offset: usize, pub cst: Cst }
impl Parser {
fn is_skipped(token: Token) -> bool {
        matches!(token, Token::Error | Token::Ws | Token::Cm)
    }
fn peek(&self, lookahead: usize) -> Token {
        self.tokens
            .iter()
            .skip(self.pos)
            .filter(|token| !Self::is_skipped(**token))
            .nth(lookahead)
            .map_or(self.end_of_input, |it| *it)
    }
fn peek_left(&self, lookbehind: usize) -> Token {
        self.tokens
            .iter()
            .take(self.pos + 1)
            .rev()
            .filter(|token| !Self::is_skipped(**token))
            .nth(lookbehind)
            .map_or(self.end_of_input, |it| *it)
    }
fn span(&self) -> Span {
        self.cst.data.spans
            .get(self.pos)
            .map_or(self.max_offset..self.max_offset, |span| span.clone())
    }
}
impl CstData {
pub fn span(&self, node_ref: NodeRef) -> Span {
        fn find_token<'a>(mut iter: impl Iterator<Item = &'a Node>) -> Option<usize> {
            iter.find_map(|node| match node {
                Node::Rule(..) => None,
                Node::Token(_, idx) => Some(usize::from(*idx)),
            })
        }
        match self.nodes[node_ref.0] {
            Node::Token(_, idx) => self.spans[usize::from(idx)].clone(),
            Node::Rule(_, end_offset) => {
                let end = node_ref.0 + usize::from(end_offset);
                let first = find_token(self.nodes[node_ref.0 + 1..=end].iter());
                let last = find_token(self.nodes[node_ref.0 + 1..=end].iter().rev());
                if let (Some(first), Some(last)) = (first, last) {
                    self.spans[first].start..self.spans[last].end
                } else {
                    let offset = find_token(self.nodes[..node_ref.0].iter().rev())
                        .map_or(0, |before| self.spans[before].end);
                    offset..offset
                }
            }
        }
    }
}
